import Gengo.Model.Exec
/-! # C10 – verify-only mode is a faithful, read-only comparison (v1 `Context.Verify`) -/
namespace Gengo.C10
open Gengo Gengo.Exec

/-- a file passes verification iff it formats and the disk holds exactly the formatted bytes -/
def Identical (format : Str → Option Str) (d : Disk) (dir : Str) (f : File) : Prop :=
  ∃ b, format (assemble f) = some b ∧ d.readFile (joinPath dir f.name) = some b

theorem verifyFile_iff (format : Str → Option Str) (d : Disk) (dir : Str) (f : File) :
    verifyFile format d f (joinPath dir f.name) = true ↔ Identical format d dir f := by
  unfold verifyFile Identical
  cases hf : format (assemble f) with
  | none => simp
  | some b =>
    cases hr : d.readFile (joinPath dir f.name) with
    | none => simp
    | some e => simp [eq_comm]

/-- **verify_leaves_files_unchanged** (assembly loop): in verify-only mode the disk is returned as it was -/
theorem verify_loop_disk (format : Str → Option Str) (c : Ctx) (hv : c.verify = true) (dir : Str)
    (files : List File) (d : Disk) : (assembleAll format c dir files d).1 = d := by
  induction files generalizing d with
  | nil => rfl
  | cons f fs ih => simp only [assembleAll, hv, if_true]; exact ih d

/-- **verify_error_names_each_bad_file**: the reported names are exactly the files that are missing,
differ in any byte, or cannot be formatted – in file order, none omitted, none added -/
theorem verify_names (format : Str → Option Str) (c : Ctx) (hv : c.verify = true) (dir : Str)
    (files : List File) (d : Disk) :
    (assembleAll format c dir files d).2 =
      (files.filter (fun f => !verifyFile format d f (joinPath dir f.name))).map (·.name) := by
  induction files with
  | nil => rfl
  | cons f fs ih =>
    simp only [assembleAll, hv, if_true, List.filter_cons]
    cases hf : verifyFile format d f (joinPath dir f.name) with
    | true => simpa using ih
    | false => simp [ih]

/-- **verify_ok_iff_all_identical** (assembly loop) -/
theorem verify_loop_ok_iff (format : Str → Option Str) (c : Ctx) (hv : c.verify = true) (dir : Str)
    (files : List File) (d : Disk) :
    (assembleAll format c dir files d).2 = [] ↔ ∀ f ∈ files, Identical format d dir f := by
  rw [verify_names format c hv]
  simp only [List.map_eq_nil_iff, List.filter_eq_nil_iff, Bool.not_eq_true', Bool.not_eq_false]
  constructor
  · intro h f hf; exact (verifyFile_iff format d dir f).mp (h f hf)
  · intro h f hf; exact (verifyFile_iff format d dir f).mpr (h f hf)

/-- **verify_leaves_fs_unchanged**: a whole target run in verify-only mode leaves directories and
files exactly as they were (true since the repair of F11: `MkdirAll` is skipped when verifying) -/
theorem verify_leaves_fs_unchanged (format : Str → Option Str) (c : Ctx) (hv : c.verify = true)
    (tgt : Target) (d : Disk) : (executeTarget format c tgt d).2.2 = d := by
  unfold executeTarget
  simp only [hv, if_true, Option.isNone_some, Bool.and_false, Bool.false_eq_true, if_false, Option.getD_some]
  split
  · rfl
  · split
    · rfl
    · exact verify_loop_disk format c hv _ _ _

/-- … and so does a run over any list of targets -/
theorem verify_all_targets_unchanged (format : Str → Option Str) (c : Ctx) (hv : c.verify = true)
    (ts : List Target) (d : Disk) : (executeTargets format c ts d).2 = d := by
  induction ts generalizing d with
  | nil => rfl
  | cons t ts ih =>
    simp only [executeTargets]
    rw [verify_leaves_fs_unchanged format c hv t d]
    exact ih d

/-- **verify_ok_iff_all_identical** (whole target): when the generators run through and every file
type is registered, verify-only reports exactly the files that are not byte-identical on disk (missing,
different, or unformattable) and succeeds iff there is none (`verify_loop_ok_iff`: iff every file the
run would have written already exists with identical content). -/
theorem verify_target (format : Str → Option Str) (c : Ctx) (hv : c.verify = true) (tgt : Target)
    (d : Disk) (evs : List Ev) (files : List File)
    (hrun : runGens c tgt (c.order.filter (fun t => tgt.accept.contains t)) tgt.gens [] = (evs, .inr files))
    (hft : files.any (fun f => !c.fileTypes.contains f.fileType) = false) :
    (executeTarget format c tgt d).2.1 =
      (let bad := (files.filter (fun f => !verifyFile format d f (joinPath tgt.dir f.name))).map (·.name)
       if bad.isEmpty then TRes.ok else TRes.errFiles (sortedKeys bad)) := by
  unfold executeTarget
  simp only [hv, if_true, Option.isNone_some, Bool.and_false, Bool.false_eq_true, if_false, Option.getD_some, hrun, hft]
  rw [verify_names format c hv tgt.dir files d]

theorem verify_target_ok_iff (format : Str → Option Str) (c : Ctx) (hv : c.verify = true) (tgt : Target)
    (d : Disk) (evs : List Ev) (files : List File)
    (hrun : runGens c tgt (c.order.filter (fun t => tgt.accept.contains t)) tgt.gens [] = (evs, .inr files))
    (hft : files.any (fun f => !c.fileTypes.contains f.fileType) = false) :
    (executeTarget format c tgt d).2.1 = TRes.ok ↔ ∀ f ∈ files, Identical format d tgt.dir f := by
  rw [verify_target format c hv tgt d evs files hrun hft, ← verify_loop_ok_iff format c hv tgt.dir files d,
    verify_names format c hv]
  simp only
  cases h : (files.filter (fun f => !verifyFile format d f (joinPath tgt.dir f.name))).map (·.name) with
  | nil => simp
  | cons a l => simp

/-! ## generate, then verify -/

theorem joinPath_inj (dir a b : Str) (h : joinPath dir a = joinPath dir b) : a = b := by
  unfold joinPath at h
  split at h
  · exact h
  · have := List.append_cancel_left h
    exact (List.cons.inj this).2

theorem writeFile_read (d d' : Disk) (p content q : Str) (h : d.writeFile p content = some d') :
    d'.readFile q = if q = p then some content else d.readFile q := by
  unfold Disk.writeFile at h
  split at h
  · cases h; simp [Disk.readFile, AL.lookup_insert]
  · cases h

theorem assembleFile_read_other (format : Str → Option Str) (d : Disk) (f : File) (path q : Str) (hne : q ≠ path) :
    (assembleFile format d f path).1.readFile q = d.readFile q := by
  unfold assembleFile
  cases hf : format (assemble f) with
  | some b =>
    cases hw : d.writeFile path b with
    | none => simp only [hf, hw]
    | some d' => simp only [hf, hw]; rw [writeFile_read d d' path b q hw, if_neg hne]
  | none =>
    cases hw : d.writeFile path (assemble f) with
    | none => simp only [hf, hw]
    | some d' => simp only [hf, hw]; rw [writeFile_read d d' path _ q hw, if_neg hne]

/-- generating touches only the paths of the files it writes -/
theorem generate_other_paths (format : Str → Option Str) (c : Ctx) (hg : c.verify = false) (dir : Str) :
    ∀ (files : List File) (d : Disk) (p : Str), (∀ f ∈ files, joinPath dir f.name ≠ p) →
      (assembleAll format c dir files d).1.readFile p = d.readFile p := by
  intro files
  induction files with
  | nil => intro d p _; rfl
  | cons f fs ih =>
    intro d p hp
    simp only [assembleAll, hg, Bool.false_eq_true, if_false]
    rw [ih _ p (fun g hgm => hp g (List.mem_cons_of_mem _ hgm))]
    exact assembleFile_read_other format d f _ p (fun e => hp f List.mem_cons_self e.symm)

/-- a generating run that reports no bad file leaves every file of the target on disk, formatted -/
theorem generate_ok_identical (format : Str → Option Str) (c : Ctx) (hg : c.verify = false) (dir : Str) :
    ∀ (files : List File) (d : Disk), (files.map (·.name)).Pairwise (· ≠ ·) →
      (assembleAll format c dir files d).2 = [] →
      ∀ f ∈ files, Identical format (assembleAll format c dir files d).1 dir f := by
  intro files
  induction files with
  | nil => intro d _ _ f hf; cases hf
  | cons g gs ih =>
    intro d hd hok f hf
    simp only [assembleAll, hg, Bool.false_eq_true, if_false] at hok ⊢
    have hd' := List.pairwise_cons.mp hd
    cases ha : (assembleFile format d g (joinPath dir g.name)).2 with
    | false => simp [ha] at hok
    | true =>
      simp only [ha, if_true] at hok
      rcases List.mem_cons.mp hf with rfl | hfm
      · -- the file written first: later writes go to other paths
        rw [Identical]
        have hother := generate_other_paths format c hg dir gs (assembleFile format d f (joinPath dir f.name)).1
          (joinPath dir f.name) (fun h hm hj => hd'.1 h.name (List.mem_map.mpr ⟨h, hm, rfl⟩) (joinPath_inj dir _ _ hj).symm)
        rw [hother]
        unfold assembleFile at ha ⊢
        cases hfm : format (assemble f) with
        | none =>
          simp only [hfm] at ha
          split at ha <;> cases ha
        | some b =>
          simp only [hfm] at ha ⊢
          cases hw : d.writeFile (joinPath dir f.name) b with
          | none => simp [hw] at ha
          | some d' =>
            refine ⟨b, rfl, ?_⟩
            simp only
            rw [writeFile_read d d' _ b _ hw, if_pos rfl]
      · exact ih _ hd'.2 hok f hfm

/-- **generate_then_verify_ok**: verifying right after a generating run that reported no error, with the
same files, reports no error (the files of one target have distinct names: they are the keys of a map) -/
theorem generate_then_verify_ok (format : Str → Option Str) (c cv : Ctx) (hg : c.verify = false) (hv : cv.verify = true)
    (dir : Str) (files : List File) (d : Disk) (hd : (files.map (·.name)).Pairwise (· ≠ ·))
    (hok : (assembleAll format c dir files d).2 = []) :
    (assembleAll format cv dir files (assembleAll format c dir files d).1).2 = [] :=
  (verify_loop_ok_iff format cv hv dir files _).mpr (generate_ok_identical format c hg dir files d hd hok)

/-! non-vacuity: a file that is identical on disk, and one that is not -/
def f1 : File := ⟨"a.go".toList, "go".toList, "p".toList, [], [], [], [], "x\n".toList⟩
example (fmt : Str → Option Str) (b : Str) (h : fmt (assemble f1) = some b) :
    Identical fmt ⟨["d".toList], [(joinPath "d".toList f1.name, b)]⟩ "d".toList f1 :=
  ⟨b, h, by simp [Disk.readFile, AL.lookup]⟩
example (fmt : Str → Option Str) (b : Str) (h : fmt (assemble f1) = some b) :
    verifyFile fmt ⟨["d".toList], []⟩ f1 (joinPath "d".toList f1.name) = false := by
  simp [verifyFile, h, Disk.readFile, AL.lookup]

end Gengo.C10

import Gengo.Model.Exec
namespace Gengo.C10
end Gengo.C10

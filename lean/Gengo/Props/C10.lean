import Gengo.Model.Exec
/-! # C10 – verify-only mode is a faithful, read-only comparison (v1 `Context.Verify`) -/
namespace Gengo.C10
open Gengo Gengo.Exec

/-- a file passes verification iff it formats and the disk holds exactly the formatted bytes -/
def Identical (format : Str → Option Str) (d : Disk) (dir : Str) (f : File) : Prop :=
  ∃ b, format (assemble f) = some b ∧ d.readFile (joinPath dir f.name) = some b

theorem verifyFile_iff (format : Str → Option Str) (d : Disk) (dir : Str) (f : File) :
    verifyFile format d f (joinPath dir f.name) = true ↔ Identical format d dir f := by
  unfold verifyFile Identical
  cases hf : format (assemble f) with
  | none => simp
  | some b =>
    cases hr : d.readFile (joinPath dir f.name) with
    | none => simp
    | some e => simp [eq_comm]

/-- **verify_leaves_files_unchanged** (assembly loop): in verify-only mode the disk is returned as it was -/
theorem verify_loop_disk (format : Str → Option Str) (c : Ctx) (hv : c.verify = true) (dir : Str)
    (files : List File) (d : Disk) : (assembleAll format c dir files d).1 = d := by
  induction files generalizing d with
  | nil => rfl
  | cons f fs ih => simp only [assembleAll, hv, if_true]; exact ih d

/-- **verify_error_names_each_bad_file**: the reported names are exactly the files that are missing,
differ in any byte, or cannot be formatted – in file order, none omitted, none added -/
theorem verify_names (format : Str → Option Str) (c : Ctx) (hv : c.verify = true) (dir : Str)
    (files : List File) (d : Disk) :
    (assembleAll format c dir files d).2 =
      (files.filter (fun f => !verifyFile format d f (joinPath dir f.name))).map (·.name) := by
  induction files with
  | nil => rfl
  | cons f fs ih =>
    simp only [assembleAll, hv, if_true, List.filter_cons]
    cases hf : verifyFile format d f (joinPath dir f.name) with
    | true => simpa using ih
    | false => simp [ih]

/-- **verify_ok_iff_all_identical** (assembly loop) -/
theorem verify_loop_ok_iff (format : Str → Option Str) (c : Ctx) (hv : c.verify = true) (dir : Str)
    (files : List File) (d : Disk) :
    (assembleAll format c dir files d).2 = [] ↔ ∀ f ∈ files, Identical format d dir f := by
  rw [verify_names format c hv]
  simp only [List.map_eq_nil_iff, List.filter_eq_nil_iff, Bool.not_eq_true', Bool.not_eq_false]
  constructor
  · intro h f hf; exact (verifyFile_iff format d dir f).mp (h f hf)
  · intro h f hf; exact (verifyFile_iff format d dir f).mpr (h f hf)

/-- **verify_leaves_fs_unchanged**: a whole target run in verify-only mode leaves directories and
files exactly as they were (true since the repair of F11: `MkdirAll` is skipped when verifying) -/
theorem verify_leaves_fs_unchanged (format : Str → Option Str) (c : Ctx) (hv : c.verify = true)
    (tgt : Target) (d : Disk) : (executeTarget format c tgt d).2.2 = d := by
  unfold executeTarget
  simp only [hv, if_true, Option.isNone_some, Bool.and_false, Bool.false_eq_true, if_false, Option.getD_some]
  split
  · rfl
  · split
    · rfl
    · exact verify_loop_disk format c hv _ _ _

/-- … and so does a run over any list of targets -/
theorem verify_all_targets_unchanged (format : Str → Option Str) (c : Ctx) (hv : c.verify = true)
    (ts : List Target) (d : Disk) : (executeTargets format c ts d).2 = d := by
  induction ts generalizing d with
  | nil => rfl
  | cons t ts ih =>
    simp only [executeTargets]
    rw [verify_leaves_fs_unchanged format c hv t d]
    exact ih d

/-- **verify_ok_iff_all_identical** (whole target): when the generators run through and every file
type is registered, verify-only reports exactly the files that are not byte-identical on disk (missing,
different, or unformattable) and succeeds iff there is none (`verify_loop_ok_iff`: iff every file the
run would have written already exists with identical content). -/
theorem verify_target (format : Str → Option Str) (c : Ctx) (hv : c.verify = true) (tgt : Target)
    (d : Disk) (evs : List Ev) (files : List File)
    (hrun : runGens c tgt (c.order.filter (fun t => tgt.accept.contains t)) tgt.gens [] = (evs, .inr files))
    (hft : files.any (fun f => !c.fileTypes.contains f.fileType) = false) :
    (executeTarget format c tgt d).2.1 =
      (let bad := (files.filter (fun f => !verifyFile format d f (joinPath tgt.dir f.name))).map (·.name)
       if bad.isEmpty then TRes.ok else TRes.errFiles (sortedKeys bad)) := by
  unfold executeTarget
  simp only [hv, if_true, Option.isNone_some, Bool.and_false, Bool.false_eq_true, if_false, Option.getD_some, hrun, hft]
  rw [verify_names format c hv tgt.dir files d]

theorem verify_target_ok_iff (format : Str → Option Str) (c : Ctx) (hv : c.verify = true) (tgt : Target)
    (d : Disk) (evs : List Ev) (files : List File)
    (hrun : runGens c tgt (c.order.filter (fun t => tgt.accept.contains t)) tgt.gens [] = (evs, .inr files))
    (hft : files.any (fun f => !c.fileTypes.contains f.fileType) = false) :
    (executeTarget format c tgt d).2.1 = TRes.ok ↔ ∀ f ∈ files, Identical format d tgt.dir f := by
  rw [verify_target format c hv tgt d evs files hrun hft, ← verify_loop_ok_iff format c hv tgt.dir files d,
    verify_names format c hv]
  simp only
  cases h : (files.filter (fun f => !verifyFile format d f (joinPath tgt.dir f.name))).map (·.name) with
  | nil => simp
  | cons a l => simp

/-! non-vacuity: a file that is identical on disk, and one that is not -/
def f1 : File := ⟨"a.go".toList, "go".toList, "p".toList, [], [], [], [], "x\n".toList⟩
example (fmt : Str → Option Str) (b : Str) (h : fmt (assemble f1) = some b) :
    Identical fmt ⟨["d".toList], [(joinPath "d".toList f1.name, b)]⟩ "d".toList f1 :=
  ⟨b, h, by simp [Disk.readFile, AL.lookup]⟩
example (fmt : Str → Option Str) (b : Str) (h : fmt (assemble f1) = some b) :
    verifyFile fmt ⟨["d".toList], []⟩ f1 (joinPath "d".toList f1.name) = false := by
  simp [verifyFile, h, Disk.readFile, AL.lookup]

end Gengo.C10

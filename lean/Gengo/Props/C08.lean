import Gengo.Model.Tags
/-!
# C08 – comment-tag extraction follows its documented grammar on every input

Theorems about `Gengo.Tags` (model of `types/comments.go` and `v2/comments.go`).
-/
namespace Gengo.C08
open Gengo Gengo.Tags

/-! ### simple style -/

theorem lookup_addKV {β} (k : Str) (v : β) (k2 : Str) (m : List (Str × List β)) :
    lookup k2 (addKV k v m) =
      if k2 = k then some ((lookup k m).getD [] ++ [v]) else lookup k2 m := by
  induction m with
  | nil => simp [addKV, lookup]; split <;> simp_all [eq_comm]
  | cons hd tl ih =>
    obtain ⟨k', vs⟩ := hd
    simp only [addKV]
    split
    · subst_vars
      by_cases h2 : k2 = k' <;> simp [lookup, h2, eq_comm]
    · rename_i hne
      by_cases h2 : k2 = k <;> by_cases h3 : k' = k2 <;> simp_all [lookup]

/-- the values the grammar assigns to key `k`: one per considered line with that key, in source order -/
def specVals (marker k : Str) (lines : List Str) : List Str :=
  (lines.filterMap (considered marker)).filterMap (fun kv => if kv.1 = k then some kv.2 else none)

theorem extract_spec_aux (marker : Str) (lines : List Str) (acc : List (Str × List Str)) (k : Str) :
    (lookup k (lines.foldl (step marker) acc)).getD [] =
    (lookup k acc).getD [] ++ specVals marker k lines := by
  induction lines generalizing acc with
  | nil => simp [specVals]
  | cons l ls ih =>
    simp only [List.foldl_cons]
    rw [ih]
    unfold step
    cases h : considered marker l with
    | none => simp [specVals, h]
    | some kv =>
      obtain ⟨k1, v1⟩ := kv
      simp only [lookup_addKV, specVals, List.filterMap_cons, h]
      by_cases hk : k = k1
      · subst hk; simp
      · have : ¬ k1 = k := fun h => hk h.symm
        simp [hk, this]

/-- **values_in_source_order**: under every key the result holds exactly the values of the considered
lines carrying that key, in source order (and nothing for keys that no considered line carries). -/
theorem values_in_source_order (marker : Str) (lines : List Str) (k : Str) :
    (lookup k (extract marker lines)).getD [] = specVals marker k lines := by
  have := extract_spec_aux marker lines [] k
  simpa [extract, lookup] using this

/-- a considered line begins with the marker after trimming, its key is the text before the first `=`
and its value the text after it (`""` when there is none) -/
theorem considered_grammar (marker line k v : Str) (h : considered marker line = some (k, v)) :
    marker.isPrefixOf (trimSp line) = true ∧ trimSp line ≠ [] ∧
    k = (split2 '=' ((trimSp line).drop marker.length)).1 ∧
    v = ((split2 '=' ((trimSp line).drop marker.length)).2).getD [] := by
  unfold considered at h
  simp only at h
  split at h
  · cases h
  · split at h
    · cases h
    · rename_i h1 h2
      simp only [Option.some.injEq, Prod.mk.injEq] at h
      refine ⟨by simpa using h2, ?_, h.1.symm, h.2.symm⟩
      intro e; simp [e] at h1

/-- **only_marker_lines**: a line that does not begin with the marker after trimming contributes nothing -/
theorem only_marker_lines (marker line : Str) (h : marker.isPrefixOf (trimSp line) = false) :
    considered marker line = none := by
  unfold considered
  simp [h]

theorem split2_no_sep (sep : Char) (s : Str) (h : sep ∉ s) : split2 sep s = (s, none) := by
  induction s with
  | nil => rfl
  | cons c cs ih =>
    have hc : ¬ c = sep := fun e => h (by simp [e])
    have := ih (fun hm => h (by simp [hm]))
    simp [split2, hc, this]

theorem split2_sep (sep : Char) (a b : Str) (h : sep ∉ a) : split2 sep (a ++ sep :: b) = (a, some b) := by
  induction a with
  | nil => simp [split2]
  | cons c cs ih =>
    have hc : ¬ c = sep := fun e => h (by simp [e])
    have := ih (fun hm => h (by simp [hm]))
    simp [split2, hc, this]

/-- keys never contain `=`: the split is at the *first* `=` -/
theorem split2_fst_no_sep (sep : Char) (s : Str) : sep ∉ (split2 sep s).1 := by
  induction s with
  | nil => simp [split2]
  | cons c cs ih =>
    simp only [split2]
    split
    · simp
    · rename_i hc
      simp only [List.mem_cons, not_or]
      exact ⟨fun e => hc e.symm, ih⟩

theorem addKV_nonempty {β} (k : Str) (v : β) (m : List (Str × List β))
    (h : ∀ e ∈ m, e.2 ≠ []) : ∀ e ∈ addKV k v m, e.2 ≠ [] := by
  induction m with
  | nil => simp [addKV]
  | cons hd tl ih =>
    obtain ⟨k', vs⟩ := hd
    simp only [addKV]
    split
    · intro e he
      simp only [List.mem_cons] at he
      rcases he with rfl | he
      · simp
      · exact h e (by simp [he])
    · intro e he
      simp only [List.mem_cons] at he
      rcases he with rfl | he
      · exact h _ (by simp)
      · exact ih (fun e he => h e (by simp [he])) e he

/-- **no_empty_entry**: the result never has a key with zero values -/
theorem no_empty_entry (marker : Str) (lines : List Str) :
    ∀ e ∈ extract marker lines, e.2 ≠ [] := by
  unfold extract
  suffices ∀ acc : List (Str × List Str), (∀ e ∈ acc, e.2 ≠ []) →
      ∀ e ∈ lines.foldl (step marker) acc, e.2 ≠ [] from this [] (by simp)
  induction lines with
  | nil => intro acc h; simpa using h
  | cons l ls ih =>
    intro acc h
    simp only [List.foldl_cons]
    apply ih
    unfold step
    cases considered marker l with
    | none => exact h
    | some kv => exact addKV_nonempty kv.1 kv.2 acc h

/-- v1 boolean helper: first value under the key, the default when absent, an error otherwise -/
theorem boolV1_spec (marker key : Str) (d : Bool) (lines : List Str) :
    singleBoolV1 marker key d lines =
      match specVals marker key lines with
      | [] => .val d
      | v :: _ => if v = "true".toList then .val true else if v = "false".toList then .val false
                  else .errNotBool := by
  have hs := values_in_source_order marker lines key
  unfold singleBoolV1
  cases hl : lookup key (extract marker lines) with
  | none => simp [hl] at hs; rw [hs]
  | some vs =>
    simp [hl] at hs
    have hne : vs ≠ [] := by
      have : ∀ (m : List (Str × List Str)), lookup key m = some vs → (key, vs) ∈ m := by
        intro m
        induction m with
        | nil => simp [lookup]
        | cons hd tl ih =>
          obtain ⟨k', vs'⟩ := hd
          simp only [lookup]
          split
          · intro e; cases e; subst_vars; simp
          · intro e; simp [ih e]
      exact no_empty_entry marker lines _ (this _ hl)
    rw [← hs]
    cases vs with
    | nil => exact absurd rfl hne
    | cons v r => simp [boolOf]

/-! ### function style (v2) -/

def asciiLD (c : Char) : Bool := Str.isAsciiLetter c || Str.isAsciiDigit c

theorem beforeSlashes_no_slash (a : Str) (h : '/' ∉ a) : beforeSlashes a = a := by
  induction a with
  | nil => rfl
  | cons c cs ih =>
    have hc : c ≠ '/' := fun e => h (by simp [e])
    have := ih (fun hm => h (by simp [hm]))
    unfold beforeSlashes
    split
    · rename_i heq; simp only [List.cons.injEq] at heq; exact absurd heq.1 hc
    · rename_i heq; simp only [List.cons.injEq] at heq; obtain ⟨rfl, rfl⟩ := heq; rw [this]
    · rename_i heq; cases heq

theorem beforeSlashes_comment (a c : Str) (h : '/' ∉ a) : beforeSlashes (a ++ '/' :: '/' :: c) = a := by
  induction a with
  | nil => simp [beforeSlashes]
  | cons x xs ih =>
    have hx : x ≠ '/' := fun e => h (by simp [e])
    have := ih (fun hm => h (by simp [hm]))
    show beforeSlashes (x :: (xs ++ '/' :: '/' :: c)) = x :: xs
    unfold beforeSlashes
    split
    · rename_i heq; simp only [List.cons.injEq] at heq; exact absurd heq.1 hx
    · rename_i heq; simp only [List.cons.injEq] at heq; obtain ⟨rfl, rfl⟩ := heq; rw [this]
    · rename_i heq; cases heq

/-- **trailing_comment_ignored**: a `//` comment after the tag text (which itself contains no `/`) does
not change what the line means – for every marker, including markers that contain `//` themselves,
because the comment is looked for after the marker only. -/
theorem trailing_comment_ignored (body comment : Str) (h : '/' ∉ body) :
    stripTrailingComment (body ++ '/' :: '/' :: comment) = stripTrailingComment body := by
  unfold stripTrailingComment
  rw [beforeSlashes_comment _ _ h, beforeSlashes_no_slash _ h]

theorem line_trailing_comment_ignored (ld marker tagNames) (body comment : Str) (h : '/' ∉ body)
    (h1 : Str.trimSpace (marker ++ body ++ '/' :: '/' :: comment) = marker ++ body ++ '/' :: '/' :: comment)
    (h2 : Str.trimSpace (marker ++ body) = marker ++ body) (hm : marker ≠ []) :
    line1 ld marker tagNames (marker ++ body ++ '/' :: '/' :: comment) =
    line1 ld marker tagNames (marker ++ body) := by
  unfold line1
  simp only [h1, h2]
  have e1 : (marker ++ body ++ '/' :: '/' :: comment).isEmpty = false := by
    cases marker <;> simp_all
  have e2 : (marker ++ body).isEmpty = false := by cases marker <;> simp_all
  have p1 : marker.isPrefixOf (marker ++ body ++ '/' :: '/' :: comment) = true := by
    rw [List.append_assoc]; simp
  have p2 : marker.isPrefixOf (marker ++ body) = true := by simp
  simp only [e1, e2, p1, p2, Bool.not_true, Bool.false_eq_true, if_false]
  have d1 : (marker ++ body ++ '/' :: '/' :: comment).drop marker.length = body ++ '/' :: '/' :: comment := by
    rw [List.append_assoc]; simp
  have d2 : (marker ++ body).drop marker.length = body := by simp
  rw [d1, d2, trailing_comment_ignored _ _ h]

/-- `parseTagArgs` accepts exactly `ident)` (one argument) and `)` (none) -/
theorem parseTagArgsGo_ok (ld : Char → Bool) (input acc : Str) (r : List Str) :
    parseTagArgsGo ld input acc = .ok r ↔
      ∃ a, input = a ++ [')'] ∧ (∀ c ∈ a, ld c = true) ∧ ld ')' = false ∧
        r = (if (acc ++ a).isEmpty then [] else [acc ++ a]) := by
  induction input generalizing acc with
  | nil => simp [parseTagArgsGo]
  | cons c cs ih =>
    simp only [parseTagArgsGo]
    by_cases h1 : ld c = true
    · simp only [h1, if_true]
      rw [ih]
      constructor
      · rintro ⟨a, rfl, ha, hp, hr⟩
        refine ⟨c :: a, by simp, ?_, hp, by simpa using hr⟩
        intro x hx; simp only [List.mem_cons] at hx; rcases hx with rfl | hx
        · exact h1
        · exact ha x hx
      · rintro ⟨a, ha, hall, hp, hr⟩
        cases a with
        | nil =>
          simp only [List.nil_append, List.cons.injEq] at ha
          rw [ha.1] at h1; rw [h1] at hp; cases hp
        | cons x xs =>
          simp only [List.cons_append, List.cons.injEq] at ha
          obtain ⟨rfl, rfl⟩ := ha
          exact ⟨xs, rfl, fun y hy => hall y (by simp [hy]), hp, by simpa using hr⟩
    · simp only [h1]
      by_cases h2 : c = ','
      · subst h2
        simp only [if_true]
        constructor
        · intro h; cases h
        · rintro ⟨a, ha, hall, _, _⟩
          cases a with
          | nil => simp at ha
          | cons x xs =>
            simp only [List.cons_append, List.cons.injEq] at ha
            have := hall x (by simp)
            rw [← ha.1] at this; exact absurd this h1
      · simp only [h2, if_false]
        by_cases h3 : c = ')'
        · subst h3
          simp only [if_true]
          cases cs with
          | nil =>
            simp only [List.isEmpty_nil, Bool.not_true]
            constructor
            · intro h
              refine ⟨[], rfl, by simp, by simpa using h1, ?_⟩
              by_cases he : acc.isEmpty <;> simp_all
            · rintro ⟨a, ha, hall, hp, hr⟩
              cases a with
              | nil =>
                subst hr
                simp only [List.append_nil]
                by_cases he : acc = [] <;> simp [he]
              | cons x xs =>
                simp only [List.cons_append, List.cons.injEq] at ha
                have := ha.2
                cases xs <;> simp at this
          | cons d ds =>
            simp only [List.isEmpty_cons, Bool.not_false, if_true]
            constructor
            · intro h; cases h
            · rintro ⟨a, ha, hall, hp, _⟩
              cases a with
              | nil => simp at ha
              | cons x xs =>
                simp only [List.cons_append, List.cons.injEq] at ha
                have := hall x (by simp)
                rw [← ha.1] at this; rw [this] at hp; cases hp
        · simp only [h3, if_false]
          constructor
          · intro h; cases h
          · rintro ⟨a, ha, hall, _, _⟩
            cases a with
            | nil => simp only [List.nil_append, List.cons.injEq] at ha; exact absurd ha.1 h3
            | cons x xs =>
              simp only [List.cons_append, List.cons.injEq] at ha
              have := hall x (by simp)
              rw [← ha.1] at this; exact absurd this h1

/-- **args_grammar**: the arguments part is accepted iff it is letters/digits followed by a final `)`;
one argument if there is at least one letter/digit, none for `)`; everything else is an error. -/
theorem args_grammar (ld : Char → Bool) (hp : ld ')' = false) (input : Str) (r : List Str) :
    parseTagArgs ld input = .ok r ↔
      ∃ a, input = a ++ [')'] ∧ (∀ c ∈ a, ld c = true) ∧ r = (if a.isEmpty then [] else [a]) := by
  unfold parseTagArgs
  rw [parseTagArgsGo_ok]
  constructor
  · rintro ⟨a, h1, h2, _, h4⟩; exact ⟨a, h1, h2, by simpa using h4⟩
  · rintro ⟨a, h1, h2, h4⟩; exact ⟨a, h1, h2, hp, by simpa using h4⟩

/-- **tagNames_restrict** (1): a key whose name is not requested is skipped – never an error, even
when its argument list is malformed -/
theorem tagNames_skip (ld : Char → Bool) (input : Str) (tagNames : List Str)
    (hne : tagNames ≠ []) (h : (split2 '(' input).1 ∉ tagNames) :
    parseTagKey ld input tagNames = .skip := by
  unfold parseTagKey
  have : tagNames.isEmpty = false := by cases tagNames <;> simp_all
  simp [this, h]

/-- **tagNames_restrict** (2): every name that is returned was requested -/
theorem tagNames_only (ld : Char → Bool) (input : Str) (tagNames : List Str) (name : Str) (args : List Str)
    (hne : tagNames ≠ []) (h : parseTagKey ld input tagNames = .ok name args) : name ∈ tagNames := by
  unfold parseTagKey at h
  have he : tagNames.isEmpty = false := by cases tagNames <;> simp_all
  simp only [he, Bool.not_false, Bool.true_and] at h
  split at h
  · cases h
  · rename_i hc
    have hm : (split2 '(' input).1 ∈ tagNames := by simpa using hc
    split at h
    · cases h; exact hm
    · split at h
      · cases h
      · cases h; exact hm

/-- keys (names) of the function-style result: name and arguments are split at the first `(` -/
theorem key_args_split (ld : Char → Bool) (input : Str) (name : Str) (args : List Str)
    (h : parseTagKey ld input [] = .ok name args) :
    name = (split2 '(' input).1 ∧
    match (split2 '(' input).2 with
    | none => args = []
    | some rest => parseTagArgs ld rest = .ok args := by
  unfold parseTagKey at h
  simp only [List.isEmpty_nil, Bool.not_true, Bool.false_and] at h
  cases hs : (split2 '(' input).2 with
  | none =>
    rw [hs] at h
    simp only [Bool.false_eq_true, if_false] at h
    cases h; simp
  | some rest =>
    rw [hs] at h
    simp only [Bool.false_eq_true, if_false] at h
    cases ha : parseTagArgs ld rest with
    | error e => rw [ha] at h; cases h
    | ok a => rw [ha] at h; cases h; simp [ha]

/-- **bool_first_value_default_error** (v2): with no tag of that name the default is returned -/
theorem boolV2_default (ld marker key) (d : Bool) (lines : List Str) (m)
    (h : extractFS ld marker [key] lines = .ok m) (hk : lookup key m = none) :
    singleBoolV2 ld marker key d lines = .val d := by
  simp [singleBoolV2, h, hk]

theorem boolV2_first (ld marker key) (d : Bool) (lines : List Str) (m) (t : Tag) (ts : List Tag)
    (h : extractFS ld marker [key] lines = .ok m) (hk : lookup key m = some (t :: ts)) :
    singleBoolV2 ld marker key d lines =
      if t.value = "true".toList then .val true else if t.value = "false".toList then .val false
      else .errNotBool := by
  simp [singleBoolV2, h, hk, boolOf]

/-! ### non-vacuity -/
example : considered "+".toList " +foo=a=b ".toList = some ("foo".toList, "a=b".toList) := by decide
example : specVals "+".toList "foo".toList ["+foo=1".toList, "+bar".toList, "x".toList, "+foo".toList]
    = ["1".toList, []] := by decide
example : parseTagArgs asciiLD "arg)".toList = .ok ["arg".toList] := by rfl
example : parseTagArgs asciiLD ")".toList = .ok [] := by rfl
example : parseTagArgs asciiLD "a,b)".toList = .error .multiple := by rfl

end Gengo.C08

import Gengo.Model.BuildTag
import Gengo.Generated.Facts
/-!
# C12 – a tool never consumes its own output: regeneration is a fixed point
-/
namespace Gengo.C12
open Gengo Gengo.BuildTag

/-! ## files excluded by the tag are invisible -/

/-- **excluded_files_invisible**: an item (type, method, comment, import) is in the universe iff a file
whose constraint holds under the tool's tags contributes it -/
theorem contents_iff (tags : List Str) (tree : List SrcFile) (x : Str) :
    x ∈ contents tags tree ↔ ∃ f ∈ tree, f.sat tags = true ∧ x ∈ f.items := by
  unfold contents visible
  simp only [List.mem_flatMap, List.mem_filter]
  constructor
  · rintro ⟨f, ⟨hf, hs⟩, hx⟩; exact ⟨f, hf, hs, hx⟩
  · rintro ⟨f, hf, hs, hx⟩; exact ⟨f, ⟨hf, hs⟩, hx⟩

theorem contents_append (tags : List Str) (a b : List SrcFile) :
    contents tags (a ++ b) = contents tags a ++ contents tags b := by
  unfold contents visible; simp [List.filter_append]

theorem contents_excluded_single (tags : List Str) (f : SrcFile) (h : f.sat tags = false) :
    contents tags [f] = [] := by
  unfold contents visible; simp [h]

/-- removing files that are excluded anyway does not change the universe -/
theorem contents_filter_excluded (tags : List Str) (tree : List SrcFile) (p : SrcFile → Bool)
    (h : ∀ f ∈ tree, p f = false → f.sat tags = false) :
    contents tags (tree.filter p) = contents tags tree := by
  induction tree with
  | nil => rfl
  | cons f r ih =>
    have ihr := ih (fun g hg => h g (List.mem_cons_of_mem _ hg))
    have e1 : contents tags (f :: r) = contents tags [f] ++ contents tags r := contents_append tags [f] r
    cases hp : p f with
    | true =>
      rw [List.filter_cons_of_pos (by simpa using hp)]
      have e2 : contents tags (f :: r.filter p) = contents tags [f] ++ contents tags (r.filter p) :=
        contents_append tags [f] (r.filter p)
      rw [e1, e2, ihr]
    | false =>
      rw [List.filter_cons_of_neg (by simp [hp])]
      rw [e1, contents_excluded_single tags f (h f List.mem_cons_self hp), ihr]; rfl

/-! ## the generated header excludes the output from the tool's own runs -/

/-- **negative_constraint_excludes**: `!tag` does not hold whenever the tool runs with `tag` -/
theorem negated_tag_false (tags : List Str) (t : Str) (h : t ∈ tags) : (Expr.not (.tag t)).eval tags = false := by
  simp [Expr.eval, h]

theorem output_excluded (t : Tool) (tree : List SrcFile) : (t.output tree).sat t.tags = false := by
  simp [Tool.output, SrcFile.sat, Expr.eval, Tool.tags]

/-- what a run leaves for the next run to see: the tree without any file of the output's name -/
theorem run_contents (t : Tool) (tree : List SrcFile) :
    contents t.tags (t.run tree) = contents t.tags (tree.filter (fun f => f.name ≠ t.out)) := by
  unfold Tool.run
  rw [contents_append, contents_excluded_single _ _ (output_excluded t tree)]; simp

/-- **rerun_sees_same_universe**: if whatever carries the output's name in the tree is excluded under the
tool's tags (no previous output, or a previous – possibly stale – output with the generated header),
the next run sees the same universe as this one -/
theorem rerun_same_universe (t : Tool) (tree : List SrcFile)
    (hprev : ∀ f ∈ tree, f.name = t.out → f.sat t.tags = false) :
    contents t.tags (t.run tree) = contents t.tags tree := by
  rw [run_contents]
  apply contents_filter_excluded
  intro f hf hp
  exact hprev f hf (by simpa using hp)

/-- … and rewrites byte-identical output -/
theorem rerun_same_bytes (t : Tool) (tree : List SrcFile)
    (hprev : ∀ f ∈ tree, f.name = t.out → f.sat t.tags = false) :
    t.bytes (t.run tree) = t.bytes tree := by
  unfold Tool.bytes; rw [rerun_same_universe t tree hprev]

/-- after a run the premise holds: the only file carrying the output's name is the generated one -/
theorem run_establishes_premise (t : Tool) (tree : List SrcFile) :
    ∀ f ∈ t.run tree, f.name = t.out → f.sat t.tags = false := by
  intro f hf hn
  unfold Tool.run at hf
  rcases List.mem_append.mp hf with h | h
  · have := (List.mem_filter.mp h).2; simp [hn] at this
  · rw [List.mem_singleton.mp h]; exact output_excluded t tree

/-- **regeneration_fixed_point** (unconditional form): whatever the tree held, from the first run on every
further run sees the same universe and writes the same bytes -/
theorem second_run_same_bytes (t : Tool) (tree : List SrcFile) :
    t.bytes (t.run (t.run tree)) = t.bytes (t.run tree) :=
  rerun_same_bytes t (t.run tree) (run_establishes_premise t tree)

def runs (t : Tool) : Nat → List SrcFile → List SrcFile
  | 0, tree => tree
  | n + 1, tree => t.run (runs t n tree)

/-- **any_number_of_runs**: run n+1 writes what run 1 wrote, for every n, when the tree's previous output
(if any) carries the generated header -/
theorem nth_run_same_bytes (t : Tool) (tree : List SrcFile)
    (hprev : ∀ f ∈ tree, f.name = t.out → f.sat t.tags = false) (n : Nat) :
    t.bytes (runs t n tree) = t.bytes tree ∧ (∀ f ∈ runs t n tree, f.name = t.out → f.sat t.tags = false) := by
  induction n with
  | zero => exact ⟨rfl, hprev⟩
  | succ n ih =>
    refine ⟨?_, run_establishes_premise t _⟩
    show t.bytes (t.run (runs t n tree)) = t.bytes tree
    rw [rerun_same_bytes t _ ih.2, ih.1]

/-- the tree itself is a fixed point after one run (same files, same generated file) -/
theorem run_idempotent (t : Tool) (tree : List SrcFile)
    (hprev : ∀ f ∈ tree, f.name = t.out → f.sat t.tags = false) : t.run (t.run tree) = t.run tree := by
  have h1 : (t.run tree).filter (fun f => f.name ≠ t.out) = tree.filter (fun f => f.name ≠ t.out) := by
    unfold Tool.run; simp [List.filter_append, List.filter_filter, Tool.output]
  have h2 : t.output (t.run tree) = t.output tree := by
    unfold Tool.output; rw [rerun_same_universe t tree hprev]
  show (t.run tree).filter (fun f => f.name ≠ t.out) ++ [t.output (t.run tree)] = t.run tree
  rw [h1, h2]; rfl

/-- without any premise: the second run's tree is final -/
theorem run_idempotent_after_first (t : Tool) (tree : List SrcFile) :
    t.run (t.run (t.run tree)) = t.run (t.run tree) :=
  run_idempotent t (t.run tree) (run_establishes_premise t tree)

/-! ## the header really is the negative constraint (regenerated format strings) -/

theorem takeWhile_tag (t rest : Str) (h : isTagName t = true) :
    (t ++ '\n' :: rest).takeWhile (· ≠ '\n') = t := by
  have hall : ∀ c ∈ t, c ≠ '\n' := by
    intro c hc
    have : isTagChar c = true := by
      have := (Bool.and_eq_true _ _).mp h
      exact List.all_eq_true.mp this.1 c hc
    intro e; subst e; revert this; decide
  induction t with
  | nil => simp
  | cons c r ih =>
    have hc : c ≠ '\n' := hall c List.mem_cons_self
    simp only [List.cons_append, List.takeWhile_cons, ne_eq, hc, not_false_eq_true, decide_true, ↓reduceIte]
    congr 1
    induction r with
    | nil => simp
    | cons d r' _ =>
      have : ∀ c ∈ d :: r', c ≠ '\n' := fun c hc => hall c (List.mem_cons_of_mem _ hc)
      clear ih
      revert this
      generalize d :: r' = l
      intro hl
      induction l with
      | nil => simp
      | cons x xs ihx =>
        have hx : x ≠ '\n' := hl x List.mem_cons_self
        simp only [List.cons_append, List.takeWhile_cons, ne_eq, hx, not_false_eq_true, decide_true, ↓reduceIte]
        congr 1
        exact ihx (fun c hc => hl c (List.mem_cons_of_mem _ hc))

/-- a format of the shape `//go:build !%s\n…` applied to a tag gives a header carrying `!tag` -/
theorem header_of_shape (rest : Str) (tag : Str) (as : List Str) (h : isTagName tag = true) :
    headerConstraint (sprintf (kGoBuild ++ '!' :: '%' :: 's' :: '\n' :: rest) (tag :: as)) = some (.not (.tag tag)) := by
  have e : sprintf (kGoBuild ++ '!' :: '%' :: 's' :: '\n' :: rest) (tag :: as)
      = kGoBuild ++ '!' :: (tag ++ '\n' :: sprintf rest as) := by
    simp [kGoBuild, sprintf]
  rw [e]
  unfold headerConstraint
  have hp : kGoBuild.isPrefixOf (kGoBuild ++ '!' :: (tag ++ '\n' :: sprintf rest as)) = true := by
    simp [List.isPrefixOf_iff_prefix]
  simp only [hp, ↓reduceIte, List.drop_left, List.takeWhile_cons, ne_eq]
  have : ('!' : Char) ≠ '\n' := by decide
  simp only [this, not_false_eq_true, decide_true, ↓reduceIte, takeWhile_tag tag _ h, h]

/-- **v2_header_negative**: `GoBoilerplate`'s format string, as it is in /repo now, yields `//go:build !tag` -/
theorem v2_header_negative (tag : Str) (h : isTagName tag = true) :
    headerConstraint (sprintf Generated.headerFmtV2.toList [tag, tag]) = some (.not (.tag tag)) := by
  have e : Generated.headerFmtV2.toList = kGoBuild ++ '!' :: '%' :: 's' :: '\n' :: "// +build !%s\n\n".toList := by decide
  rw [e]; exact header_of_shape _ tag [tag] h

/-- **deepcopy_header_negative**: the same for deepcopy-gen's header (v1) -/
theorem deepcopy_header_negative (tag : Str) (h : isTagName tag = true) :
    headerConstraint (sprintf Generated.headerFmtDeepcopy.toList [tag, tag]) = some (.not (.tag tag)) := by
  have e : Generated.headerFmtDeepcopy.toList = kGoBuild ++ '!' :: '%' :: 's' :: '\n' :: "// +build !%s\n\n".toList := by decide
  rw [e]; exact header_of_shape _ tag [tag] h

/-- the default tags are tag names (so the theorems above apply to the defaults) -/
theorem default_tags_are_names :
    isTagName Generated.stdBuildTagV2.toList = true ∧ isTagName Generated.generatedBuildTagV1.toList = true := by decide

/-! non-vacuity: a tree with a hand-written file, a stale output and an excluded file -/
def demoTool : Tool := { tag := "gen".toList, out := "zz.go".toList, gen := fun u => Str.join [','] u, decls := fun b => [b] }
def demoTree : List SrcFile :=
  [⟨"a.go".toList, none, ["A".toList]⟩, ⟨"zz.go".toList, some (.not (.tag "gen".toList)), ["Stale".toList]⟩,
   ⟨"b.go".toList, some (.tag "other".toList), ["B".toList]⟩]
example : contents demoTool.tags demoTree = ["A".toList] := by decide
example : ∀ f ∈ demoTree, f.name = demoTool.out → f.sat demoTool.tags = false := by decide
example : demoTool.bytes (demoTool.run demoTree) = "A".toList := by decide

end Gengo.C12

import Gengo.Model.Order
import Gengo.Lemmas.StrOrder
/-! # C03 – the canonical type order is sorted, complete and a function of the input only -/
namespace Gengo.C03
open Gengo Gengo.Order

/-- **order_complete**: the order contains every entry of the universe exactly once -/
theorem order_complete (name : Nat → Str) (u : List Entry) :
    (orderUniverse name u).Perm (u.map (·.2)) := by
  unfold orderUniverse orderTypes collect
  exact (List.mergeSort_perm _ _).trans ((List.mergeSort_perm u _).map _)

/-- **order_sorted**: the order is non-decreasing in the naming system's names -/
theorem order_sorted (name : Nat → Str) (u : List Entry) :
    (orderUniverse name u).Pairwise (fun a b => Str.le (name a) (name b) = true) := by
  unfold orderUniverse orderTypes
  apply List.pairwise_mergeSort
  · intro a b c h1 h2; exact Str.le_trans _ _ _ h1 h2
  · intro a b; exact Str.le_total _ _

theorem orderTypes_complete (name : Nat → Str) (l : List Nat) : (orderTypes name l).Perm l :=
  List.mergeSort_perm _ _

theorem orderTypes_sorted (name : Nat → Str) (l : List Nat) :
    (orderTypes name l).Pairwise (fun a b => Str.le (name a) (name b) = true) := by
  unfold orderTypes
  apply List.pairwise_mergeSort
  · intro a b c h1 h2; exact Str.le_trans _ _ _ h1 h2
  · intro a b; exact Str.le_total _ _

theorem nodup_map_inj (l : List Entry) (h : (l.map (·.1)).Nodup) (a b : Entry) (ha : a ∈ l) (hb : b ∈ l)
    (hk : a.1 = b.1) : a = b := by
  induction l with
  | nil => cases ha
  | cons x xs ih =>
    simp only [List.map_cons, List.nodup_cons, List.mem_map, not_exists, not_and] at h
    simp only [List.mem_cons] at ha hb
    rcases ha with rfl | ha <;> rcases hb with rfl | hb
    · rfl
    · exact absurd hk.symm (h.1 b hb)
    · exact absurd hk (h.1 a ha)
    · exact ih h.2 ha hb

/-- the collection step is independent of the map schedule: two enumerations of the same universe
(permutations of each other, keys unique as in Go maps) are collected identically -/
theorem collect_schedule_independent (u₁ u₂ : List Entry) (hp : u₁.Perm u₂)
    (hk : (u₁.map (·.1)).Nodup) : collect u₁ = collect u₂ := by
  unfold collect
  congr 1
  apply List.Perm.eq_of_pairwise (le := fun a b => Str.le a.1 b.1 = true)
  · intro a b ha hb h1 h2
    have hkey : a.1 = b.1 := Str.le_antisymm _ _ h1 h2
    have ha' : a ∈ u₁ := (List.mergeSort_perm u₁ _).subset ha
    have hb' : b ∈ u₁ := hp.symm.subset ((List.mergeSort_perm u₂ _).subset hb)
    -- unique keys: same key ⇒ same entry
    exact nodup_map_inj u₁ hk a b ha' hb' hkey
  · apply List.pairwise_mergeSort
    · intro a b c h1 h2; exact Str.le_trans _ _ _ h1 h2
    · intro a b; exact Str.le_total _ _
  · apply List.pairwise_mergeSort
    · intro a b c h1 h2; exact Str.le_trans _ _ _ h1 h2
    · intro a b; exact Str.le_total _ _
  · exact (List.mergeSort_perm u₁ _).trans (hp.trans (List.mergeSort_perm u₂ _).symm)

/-- **order_function_of_input_only**: the canonical order is the same for every hash-map iteration
order of the same universe – including when several entries receive the same name (ties are broken by
the stable sort over the key-ordered collection, not by the schedule). -/
theorem order_deterministic (name : Nat → Str) (u₁ u₂ : List Entry) (hp : u₁.Perm u₂)
    (hk : (u₁.map (·.1)).Nodup) : orderUniverse name u₁ = orderUniverse name u₂ := by
  unfold orderUniverse
  rw [collect_schedule_independent u₁ u₂ hp hk]

/-- before the repair the contract of the unstable sort over a map-ordered collection admitted
different results on ties (F4): two valid sorted permutations of the same input that differ -/
theorem ties_needed_the_repair :
    ∃ (name : Nat → Str) (l o₁ o₂ : List Nat),
      o₁.Perm l ∧ o₂.Perm l ∧
      o₁.Pairwise (fun a b => Str.le (name a) (name b) = true) ∧
      o₂.Pairwise (fun a b => Str.le (name a) (name b) = true) ∧ o₁ ≠ o₂ := by
  refine ⟨fun _ => "Baz".toList, [0, 1], [0, 1], [1, 0], List.Perm.refl _, List.Perm.swap _ _ _, ?_, ?_, by decide⟩
  · simp [Str.le, Str.lt_irrefl]
  · simp [Str.le, Str.lt_irrefl]

/-! non-vacuity: a universe with a tie -/
example : ((["a\x000\x00Baz".toList, "b\x000\x00Baz".toList] : List Str).Nodup) := by decide

end Gengo.C03

import Gengo.Model.Assemble
import Gengo.Lemmas.StrOrder
/-! # C09 – assembled files are well-formed, format-stable and byte-reproducible -/
namespace Gengo.C09
open Gengo Gengo.Exec Gengo.Assemble

/-! ### shape of the assembled text -/

/-- **assemble_shape**: the header comes first, then the package clause with the target's package
name, then – in this fixed order and only when non-empty – the import block, the var block, the const
block, and finally the body -/
theorem assemble_shape (f : File) (imps : List Str) :
    ∃ ib vb cb, assembleWith f imps = f.header ++ "package ".toList ++ f.pkgName ++ "\n\n".toList ++ ib ++ vb ++ cb ++ f.body ∧
      (imps = [] → ib = []) ∧
      (imps ≠ [] → ib = "import (\n".toList ++ (imps.map importLine).flatten ++ ")\n\n".toList) ∧
      (f.vars = [] → vb = []) ∧ (f.vars ≠ [] → vb = "var (\n".toList ++ f.vars ++ ")\n\n".toList) ∧
      (f.consts = [] → cb = []) ∧ (f.consts ≠ [] → cb = "const (\n".toList ++ f.consts ++ ")\n\n".toList) := by
  refine ⟨if imps.isEmpty then [] else "import (\n".toList ++ (imps.map importLine).flatten ++ ")\n\n".toList,
    if f.vars.isEmpty then [] else "var (\n".toList ++ f.vars ++ ")\n\n".toList,
    if f.consts.isEmpty then [] else "const (\n".toList ++ f.consts ++ ")\n\n".toList, rfl, ?_, ?_, ?_, ?_, ?_, ?_⟩
  · intro h; simp [h]
  · intro h; cases imps <;> simp_all
  · intro h; simp [h]
  · intro h; cases hv : f.vars <;> simp_all
  · intro h; simp [h]
  · intro h; cases hc : f.consts <;> simp_all

/-- the header is a prefix of the file -/
theorem header_first (f : File) (imps : List Str) : f.header.isPrefixOf (assembleWith f imps) = true := by
  unfold assembleWith
  simp only [List.append_assoc]
  exact List.isPrefixOf_iff_prefix.mpr ⟨_, rfl⟩

/-- **import_block_is_perm**: the block written for a map schedule lists exactly the contributed
import set, each entry rendered by the quoted/bare rule – two schedules differ only by a permutation
of these lines -/
theorem import_block_is_perm (l₁ l₂ : List Str) (h : l₁.Perm l₂) :
    (l₁.map importLine).Perm (l₂.map importLine) := h.map _

/-- contributions accumulate in generator order (var, const and body text are concatenations) -/
theorem vars_in_generator_order (f : File) (g₁ g₂ : Gen) (b₁ b₂ : Str) :
    (contribute (contribute f g₁ b₁) g₂ b₂).body = f.body ++ b₁ ++ b₂ := rfl

/-! ### the formatted import block does not depend on the schedule -/

theorem specLe_trans (a b c : Spec) (h1 : specLe a b = true) (h2 : specLe b c = true) : specLe a c = true :=
  Str.le_trans _ _ _ h1 h2

theorem specLe_total (a b : Spec) : (specLe a b || specLe b a) = true := Str.le_total _ _

/-- distinct specs have distinct sort keys (true when names and paths contain no NUL) -/
def KeyInj (l : List Spec) : Prop := ∀ a ∈ l, ∀ b ∈ l, key a = key b → a = b

/-- **formatted_imports_schedule_independent**: whatever order the import set was contributed or the
map iterated in, the formatted block is the same list of lines -/
theorem formatted_imports_schedule_independent (l₁ l₂ : List Spec) (h : l₁.Perm l₂) (hk : KeyInj l₁) :
    canon l₁ = canon l₂ := by
  unfold canon
  congr 1
  have s₁ := List.pairwise_mergeSort (le := specLe) specLe_trans specLe_total l₁
  have s₂ := List.pairwise_mergeSort (le := specLe) specLe_trans specLe_total l₂
  have p : (l₁.mergeSort specLe).Perm (l₂.mergeSort specLe) :=
    (List.mergeSort_perm l₁ specLe).trans (h.trans (List.mergeSort_perm l₂ specLe).symm)
  refine List.Perm.eq_of_pairwise (le := fun a b => specLe a b = true) ?_ s₁ s₂ p
  intro a b ha hb hab hba
  have ha' : a ∈ l₁ := (List.mergeSort_perm l₁ specLe).subset ha
  have hb' : b ∈ l₁ := h.symm.subset ((List.mergeSort_perm l₂ specLe).subset hb)
  exact hk a ha' b hb' (Str.le_antisymm _ _ hab hba)

theorem formattedBlock_schedule_independent (i₁ i₂ : List Str) (h : i₁.Perm i₂)
    (hk : KeyInj (i₁.map parseImport)) : formattedBlock i₁ = formattedBlock i₂ := by
  unfold formattedBlock
  rw [formatted_imports_schedule_independent _ _ (h.map parseImport) hk]

/-- **canon_idempotent**: sorting an already sorted block changes nothing (the formatter's import
handling is a fixed point on its own output) -/
theorem sort_idempotent (l : List Spec) :
    (l.mergeSort specLe).mergeSort specLe = l.mergeSort specLe :=
  List.mergeSort_of_pairwise (List.pairwise_mergeSort specLe_trans specLe_total l)

/-! non-vacuity -/
example : parseImport "alias \"a/b\"".toList = ⟨"alias".toList, "a/b".toList⟩ := by decide
example : parseImport "fmt".toList = ⟨[], "fmt".toList⟩ := by decide
example : group "k8s.io/x".toList = 1 ∧ group "fmt".toList = 0 := by decide

end Gengo.C09

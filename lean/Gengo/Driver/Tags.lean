import Gengo.Basic.Proto
import Gengo.Model.Tags
namespace Gengo.Driver.Tags
open Gengo Gengo.Proto Gengo.Tags

/-- `unicode.IsLetter(r) || unicode.IsDigit(r)` on the harness's alphabet: ASCII plus the
    listed non-ASCII runes (the harness checks this table against package `unicode`). -/
def ld (c : Char) : Bool :=
  Str.isAsciiLetter c || Str.isAsciiDigit c || [0xe9, 0x3bb, 0x663, 0x4e16].contains c.toNat

def sortByKey {β} (m : List (Str × β)) : List (Str × β) :=
  m.mergeSort (fun a b => !Str.lt b.1 a.1)

def showMap (m : List (Str × List Str)) : Str :=
  Str.join [';'] ((sortByKey m).map fun (k, vs) => hex k ++ [':'] ++ hexList vs)

def showTag (t : Tag) : Str := hexList t.args ++ ['/'] ++ hex t.value

def showFS : Out → Str
  | .err _ => str "err"
  | .ok m => str "ok " ++ Str.join [';'] ((sortByKey m).map fun (k, ts) =>
      hex k ++ [':'] ++ Str.join ['|'] (ts.map showTag))

def showBool : BoolRes → Str
  | .val true => str "true"
  | .val false => str "false"
  | .errNotBool => str "err"
  | .errArgs => str "err"

def handle : List Str → Str
  | [op, marker, lines] =>
    if op = str "ect" then showMap (extract (unhex marker) (unhexList lines)) else str "bad-op"
  | [op, marker, a, lines] =>
    if op = str "fs" then showFS (extractFS ld (unhex marker) (unhexList a) (unhexList lines))
    else str "bad-op"
  | [op, marker, key, d, lines] =>
    let dv := d = ['1']
    if op = str "bool1" then showBool (singleBoolV1 (unhex marker) (unhex key) dv (unhexList lines))
    else if op = str "bool2" then showBool (singleBoolV2 ld (unhex marker) (unhex key) dv (unhexList lines))
    else str "bad-op"
  | _ => str "bad-op"

end Gengo.Driver.Tags

import Gengo.Basic.Proto
import Gengo.Model.DeepCopyRender
namespace Gengo.Driver.DeepCopy
open Gengo Gengo.Proto Gengo.DeepCopy

/-- parser of the protocol form of type expressions: b:<name> n:<name> p(<e>) s(<e>) m(<k>,<e>) a<len>(<e>) e -/
def parseTE : Nat → Str → Option (TE × Str)
  | 0, _ => none
  | f + 1, inp =>
    match inp with
    | 'b' :: ':' :: r => let n := r.takeWhile (fun c => c ≠ ',' && c ≠ ')'); some (.builtin n, r.drop n.length)
    | 'n' :: ':' :: r => let n := r.takeWhile (fun c => c ≠ ',' && c ≠ ')'); some (.named n, r.drop n.length)
    | 'p' :: '(' :: r => (parseTE f r).map fun (e, rest) => (.ptr e, rest.drop 1)
    | 's' :: '(' :: r => (parseTE f r).map fun (e, rest) => (.slice e, rest.drop 1)
    | 'm' :: '(' :: r =>
      match parseTE f r with
      | some (k, rest) => (parseTE f (rest.drop 1)).map fun (e, rest') => (.map k e, rest'.drop 1)
      | none => none
    | 'a' :: r =>
      let num := r.takeWhile Str.isAsciiDigit
      (parseTE f (r.drop (num.length + 1))).map fun (e, rest) => (.array (natOf num) e, rest.drop 1)
    | 'e' :: r => some (.empty, r)
    | _ => none

def te (x : Str) : TE := ((parseTE 64 x).map (·.1)).getD .empty

def parseFields (x : Str) : List Field :=
  if x = ['-'] then [] else
  (Str.splitOn ';' x).filterMap fun it =>
    match Str.splitOn ':' it with
    | name :: emb :: rest => some ⟨name, emb = ['1'], te (Str.join [':'] rest)⟩
    | _ => none

structure St where
  decls : List Decl := []
  pkgTag : List (Str × Bool) := []

def St.env (st : St) : Env := ⟨st.decls, st.pkgTag⟩

def fuel : Nat := 64

def handle (st : St) : List Str → St × Str
  | op :: rest =>
    if op = str "reset" then ({}, str "ok")
    else if op = str "pkgtag" then
      match rest with
      | [p, v] => ({ st with pkgTag := st.pkgTag ++ [(p, decide (v = ['1']))] }, str "ok")
      | _ => (st, str "bad-op")
    else if op = str "decl" then
      match rest with
      | [pkg, name, kind, fields, under, custom, tag, ifaces, _det] =>
        let k := if kind = str "struct" then DKind.struct else if kind = str "alias" then .alias else .iface
        let c := if custom = str "ptr" then Custom.ptr else if custom = str "val" then .val else if custom = str "into" then .into else .none
        let d : Decl := { pkg := pkg, name := name, kind := k, fields := parseFields fields,
                          under := if under = ['-'] then .empty else te under, custom := c,
                          tag := if tag = ['-'] then none else some tag,
                          ifaces := if ifaces = ['-'] then [] else Str.splitOn ',' ifaces }
        ({ st with decls := st.decls ++ [d] }, str "ok")
      | _ => (st, str "bad-op")
    else if op = str "gen" then
      -- the types for which methods are generated (a type with both methods hand-written gets none)
      let env := st.env
      let sel := (st.decls.filter (fun d => selected env fuel d && d.custom ≠ .ptr)).map (·.qname)
      (st, hexList (sel.mergeSort Str.le))
    else if op = str "body" then
      match rest with
      | [what] =>
        let env := st.env
        -- what = <qualified type>.<method>
        let parts := Str.splitOn '.' what
        let meth := parts.getLast?.getD []
        let q := Str.join ['.'] parts.dropLast
        match env.find q with
        | some d => (st, hex (if selected env fuel d then methodText env fuel d meth else []))
        | none => (st, hex [])
      | _ => (st, str "bad-op")
    else if op = str "check" then (st, str "ok")
    else (st, str "bad-op")
  | _ => (st, str "bad-op")

end Gengo.Driver.DeepCopy

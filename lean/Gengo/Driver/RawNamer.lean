import Gengo.Driver.TyParse
import Gengo.Model.RawNamer
namespace Gengo.Driver.RawNamer
open Gengo Gengo.Proto Gengo.Driver Gengo.Tracker Gengo.RawNamer

/-- name the types in order, threading the tracker; `none` = panic -/
def nameAll (v2 : Bool) (lp : Str) : T → List Ty → Option (List Str × T)
  | st, [] => some ([], st)
  | st, t :: ts => do
    let (a, s1) ← rawName v2 lp st t
    let (r, s2) ← nameAll v2 lp s1 ts
    pure (a :: r, s2)

def handle : List Str → Str
  | [op, v, hasTr, trLocal, lp, tys] =>
    if op = str "names" then
      let v2 := v = str "v2"
      let types := (tysOfField tys).filterMap id
      if hasTr = ['1'] then
        let st := Tracker.new v2 (if trLocal = ['-'] then [] else unhex trLocal)
        match nameAll v2 (unhex lp) st types with
        | none => str "panic"
        | some (names, st') => hexList names ++ ['|'] ++ hexList (importLines st')
      else
        hexList (types.map (renderNoTracker v2 (unhex lp))) ++ ['|', '-']
    else str "bad-op"
  | _ => str "bad-op"

end Gengo.Driver.RawNamer

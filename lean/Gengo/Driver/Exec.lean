import Gengo.Basic.Proto
import Gengo.Model.Exec
namespace Gengo.Driver.Exec
open Gengo Gengo.Proto Gengo.Exec

structure St where
  ctx : Ctx := ⟨[], [], [], false, false⟩
  targets : List Target := []      -- in reverse order of declaration; gens reversed too
  disk : Disk := ⟨[], []⟩

def ids (s : Str) : List Nat := if s = ['-'] then [] else (Str.splitOn ',' s).map natOf
def showIds (l : List Nat) : Str := ['['] ++ Str.join [','] (l.map ofNat) ++ [']']
def showNs (l : List Str) : Str := ['['] ++ Str.join [','] l ++ [']']

/-- the harness's formatter: fails on the marker, otherwise identity (the real Assemble's import
block is sorted by the harness's Format, the model emits it sorted already) -/
def fmtFn (s : Str) : Option Str :=
  if (Str.index "@@FAIL@@".toList s).isSome then none else some s

def hookTag : Hook → Char
  | .namers => 'N' | .vars => 'V' | .consts => 'C' | .init => 'I' | .finalize => 'Z' | .imports => 'M'

def showEv : Ev → Str
  | .generators o => ['G'] ++ showIds o
  | .gFilter g t => ['f', ':'] ++ g ++ [':'] ++ ofNat t
  | .hook h g ns o => [hookTag h, ':'] ++ g ++ [':'] ++ showNs ns ++ [':'] ++ showIds o
  | .genType g t ns => ['T', ':'] ++ g ++ [':'] ++ ofNat t ++ [':'] ++ showNs ns

def showRes : TRes → Str
  | .ok => str "ok"
  | .errHook => str "hook"
  | .errFileType => str "filetype"
  | .errUnknownType => str "unknowntype"
  | .errMkdir => str "mkdir"
  | .errFiles ns => str "files:" ++ Str.join [','] ns

def showDisk (d : Disk) : Str :=
  str "dirs=" ++ Str.join [','] (d.dirs.mergeSort Str.le) ++ str " files=" ++
  Str.join [','] ((d.files.mergeSort (fun a b => Str.le a.1 b.1)).map fun (p, c) => p ++ ['='] ++ hex c)

def handle (st : St) : List Str → St × Str
  | op :: rest =>
    if op = str "new" then
      match rest with
      | [v, order, ns, verify, fts] =>
        ({ ctx := ⟨ids order, unhexList ns, unhexList fts, verify = ['1'], v = str "v2"⟩, targets := [], disk := ⟨[], []⟩ }, str "ok")
      | _ => (st, str "bad-op")
    else if op = str "target" then
      match rest with
      | [name, dir, acc, header] =>
        ({ st with targets := ⟨unhex name, unhex dir, ids acc, unhex header, []⟩ :: st.targets }, str "ok")
      | _ => (st, str "bad-op")
    else if op = str "gen" then
      match rest, st.targets with
      | [name, acc, ns, ft, fname, vars, consts, imps, ie, fe, te, sil], t :: ts =>
        let g : Gen := ⟨unhex name, ids acc, if ns = str "nil" then none else some (unhexList ns), unhex ft, unhex fname,
          unhexList vars, unhexList consts, unhexList imps, ie = ['1'], fe = ['1'], ids te, sil = ['1']⟩
        ({ st with targets := { t with gens := g :: t.gens } :: ts }, str "ok")
      | _, _ => (st, str "bad-op")
    else if op = str "argsverify" then (st, str "ok")   -- judged by the harness's oracle (GeneratorArgs flag handling)
    else if op = str "dir" then
      match rest with
      | [p] => ({ st with disk := { st.disk with dirs := st.disk.dirs ++ [unhex p] } }, str "ok")
      | _ => (st, str "bad-op")
    else if op = str "file" then
      match rest with
      | [p, c] => ({ st with disk := { st.disk with files := AL.insert (unhex p) (unhex c) st.disk.files } }, str "ok")
      | _ => (st, str "bad-op")
    else if op = str "run" then
      let tgts := (st.targets.map fun t => { t with gens := t.gens.reverse }).reverse
      let r := executeTargets fmtFn st.ctx tgts st.disk
      let anyUnknown := r.1.any (fun x => x.2 == TRes.errUnknownType)
      let parts := r.1.map fun (evs, res) => showRes res ++ [';'] ++ Str.join [' '] (evs.map showEv)
      (st, Str.join " | ".toList parts ++ " || ".toList ++ (if anyUnknown then ['?'] else showDisk r.2))
    else (st, str "bad-op")
  | _ => (st, str "bad-op")

end Gengo.Driver.Exec

import Gengo.Basic.Proto
import Gengo.Model.Loader
import Gengo.Model.Predicates
import Gengo.Generated.Facts
import Gengo.Model.FactsCheck
namespace Gengo.Driver.Universe
open Gengo Gengo.Proto Gengo.Universe Gengo.Loader

def kindOfStr (s : String) : Kind :=
  if s = "Builtin" then .builtin else if s = "Interface" then .iface else if s = "Struct" then .struct else .unsupported

def builtinsOf (t : List (String × String × String × String)) : List Builtin :=
  t.map fun (k, v, n, kd) => ⟨k.toList, v.toList, n.toList, kindOfStr kd⟩

structure St where
  v2 : Bool := false
  nodes : Array GNode := #[]
  strs : Array Str := #[]
  pkgs : List GPkg := []
  ls : LState := {}

def optId (s : Str) : Option Nat := if s = ['-'] then none else some (natOf s)

/-- items separated by `;`, parts of an item by `:`; "-" = empty list -/
def items (s : Str) : List (List Str) := if s = ['-'] then [] else (Str.splitOn ';' s).map (Str.splitOn ':')

def parseMethods (s : Str) : List GMethod :=
  (items s).filterMap fun
    | [n, sig, str] => some ⟨unhex n, natOf sig, unhex str⟩
    | _ => none

def parseNamed2 (s : Str) : List (Str × Nat) :=
  (items s).filterMap fun
    | [n, t] => some (unhex n, natOf t)
    | _ => none

def parseNode : List Str → GNode
  | [k, a] =>
    if k = str "basic" then .basic (unhex a)
    else if k = str "pointer" then .pointer (natOf a)
    else if k = str "slice" then .slice (natOf a)
    else if k = str "chan" then .chan (natOf a)
    else if k = str "tparam" then .tparam (natOf a)
    else if k = str "alias" then .alias (natOf a)
    else if k = str "iface" then .iface (parseMethods a)
    else if k = str "struct" then
      .struct ((items a).filterMap fun
        | [n, e, t, ty] => some ⟨unhex n, e = ['1'], unhex t, natOf ty⟩
        | _ => none)
    else .other
  | [k, a, b] =>
    if k = str "array" then .array (natOf a) (natOf b)
    else if k = str "map" then .map (natOf a) (natOf b)
    else .other
  | [k, a, b, c, d] =>
    if k = str "named" then .named (natOf a) (parseMethods b) (parseNamed2 c) (natOf d)
    else if k = str "sig" then .sig (parseNamed2 a) (parseNamed2 b) (c = ['1']) (optId d)
    else .other
  | _ => .other

def parseScope (s : Str) : List GObj :=
  (items s).filterMap fun
    | [k, n, ty, st, cv] =>
      let kind := if k = ['T'] then ObjKind.typeName else if k = ['F'] then .func else if k = ['V'] then .var else .const
      some ⟨kind, unhex n, natOf ty, unhex st, unhex cv⟩
    | _ => none

def world (st : St) : World :=
  { pkgs := st.pkgs
    facts := ⟨fun i => st.nodes.getD i .other, fun i => st.strs.getD i []⟩
    bt := builtinsOf (if st.v2 then Generated.builtinsV2 else Generated.builtinsV1)
    v2 := st.v2
    fuel := st.nodes.size + 8 }

/-! canonical dump -/
def showName (n : Name) : Str := hex n.pkg ++ ['/'] ++ hex n.name

def showKind : Kind → Str
  | .unknown => str "Unknown" | .builtin => str "Builtin" | .struct => str "Struct" | .map => str "Map"
  | .slice => str "Slice" | .pointer => str "Pointer" | .alias => str "Alias" | .iface => str "Interface"
  | .array => str "Array" | .chan => str "Chan" | .func => str "Func" | .unsupported => str "Unsupported"
  | .declarationOf => str "DeclarationOf" | .typeParam => str "TypeParam"

def refOf (u : U) (o : Option Nat) : Str :=
  match o with
  | none => ['-']
  | some i => let ob := u.obj i; (if ob.kind = .typeParam then str "tp:" else []) ++ showName ob.name

def showNamed (u : U) (l : List (Str × Nat)) : Str :=
  Str.join [','] (l.map fun (n, t) => hex n ++ ['>'] ++ refOf u (some t))

def showObj (u : U) (i : Nat) : Str :=
  let ob := u.obj i
  showKind ob.kind ++ ['|'] ++ showName ob.name ++ str "|e=" ++ refOf u ob.elem ++ str "|k=" ++ refOf u ob.key ++
  str "|u=" ++ refOf u ob.under ++ str "|l=" ++ ofNat ob.len ++
  str "|m=" ++ Str.join [','] (ob.members.map fun (n, e, t, ty) => hex n ++ ['>'] ++ (if e then ['1'] else ['0']) ++ ['>'] ++ hex t ++ ['>'] ++ refOf u (some ty)) ++
  str "|M=" ++ showNamed u (ob.methods.mergeSort (fun a b => Str.le a.1 b.1)) ++
  str "|s=" ++ (if ob.hasSig then
      ['('] ++ showNamed u ob.params ++ [')', '('] ++ showNamed u ob.results ++ [')'] ++ (if ob.variadic then ['v'] else []) ++ ['r', '='] ++ refOf u ob.recv
    else ['-']) ++
  str "|tp=" ++ showNamed u (ob.tparams.mergeSort (fun a b => Str.le a.1 b.1)) ++
  str "|c=" ++ (match ob.constVal with | none => ['-'] | some v => hex v) ++
  (if ob.kind = .unknown || ob.kind = .declarationOf then str "|f=-" else
    let fuel := u.objs.length + 1
    let b := fun (x : Bool) => if x then '1' else '0'
    str "|f=" ++ [b (Predicates.isPrimitive u i), b (Predicates.isAssignable u fuel i), b (Predicates.isAnonymousStruct u fuel i)])

def nameLe (a b : Name × Nat) : Bool :=
  Str.lt a.1.pkg b.1.pkg || (a.1.pkg = b.1.pkg && Str.le a.1.name b.1.name)

def showIndex (u : U) (tag : Char) (idx : List (Name × Nat)) : List Str :=
  (idx.mergeSort nameLe).map fun (n, o) => [tag, ' '] ++ showName n ++ [' '] ++ showObj u o

def dump (u : U) : Str :=
  let ps := (u.pkgs.mergeSort (fun a b => Str.le a.path b.path)).map fun p =>
    ['P', ' '] ++ hex p.path ++ [' '] ++ hex p.name ++ [' '] ++ hexList (p.imports.mergeSort Str.le)
  Str.join ['\n'] (ps ++ showIndex u 'T' u.types ++ showIndex u 'F' u.funcs ++ showIndex u 'V' u.vars ++ showIndex u 'C' u.consts)

def setAt {α} (a : Array α) (i : Nat) (x d : α) : Array α :=
  let a := if a.size ≤ i then a ++ Array.replicate (i + 1 - a.size) d else a
  a.set! i x

def res (r : Option LState) (st : St) : St × Str :=
  match r with
  | none => (st, str "fail")
  | some ls => ({ st with ls := ls }, str "ok")

def handle (st : St) : List Str → St × Str
  | op :: rest =>
    if op = str "reset" then
      match rest with
      | [v] => ({ v2 := v = str "v2" }, str "ok")
      | _ => (st, str "bad-op")
    else if op = str "src" || op = str "srcx" || op = str "testfiles" then (st, str "ok")   -- source text, loader options: for the real loader only
    else if op = str "node" then
      match rest with
      | id :: s :: nd =>
        let i := natOf id
        ({ st with nodes := setAt st.nodes i (parseNode nd) .other, strs := setAt st.strs i (unhex s) [] }, str "ok")
      | _ => (st, str "bad-op")
    else if op = str "pkg" then
      match rest with
      | [path, name, imps, scope] =>
        ({ st with pkgs := st.pkgs ++ [⟨unhex path, unhex name, false, unhexList imps, parseScope scope⟩] }, str "ok")
      | _ => (st, str "bad-op")
    else if op = str "load" then
      -- v1: AddDir(requested…) + FindTypes; v2: LoadPackages(requested…) + NewUniverse
      match rest with
      | [req] =>
        let w := world st
        res (if st.v2 then newUniverseV2 w (unhexList req) else findTypesV1 w (unhexList req)) st
      | _ => (st, str "bad-op")
    else if op = str "loadto" then
      -- v1: AddDirTo(pkg, &u) for each; v2: LoadPackagesTo(&u, pkgs…)
      match rest with
      | [req] =>
        let w := world st
        res (if st.v2 then loadToV2 w st.ls (unhexList req)
             else (unhexList req).foldl (fun acc p => acc.bind (fun s => addDirToV1 w s p)) (some st.ls)) st
      | _ => (st, str "bad-op")
    else if op = str "lookup" then
      -- Universe.Type/Function/Variable/Constant/Package by hand: get-or-create
      match rest with
      | [what, pkg, name] =>
        let w := world st
        let n : Name := ⟨unhex pkg, unhex name⟩
        if what = str "package" then
          ({ st with ls := { st.ls with u := st.ls.u.package n.pkg } }, str "ok")
        else
          let r := if what = str "type" then U.type w.bt st.ls.u n
            else st.ls.u.decl (if what = str "func" then .func else if what = str "var" then .var else .const) n
          ({ st with ls := { st.ls with u := r.1 } }, str "ok")
      | _ => (st, str "bad-op")
    else if op = str "hyp" then
      -- do the facts meet the hypotheses of the universe theorems? (decided by `Model/FactsCheck`, sound by `Lemmas/FactsCheckSound`)
      let t : FactsCheck.Tab := ⟨st.nodes, st.strs⟩
      let b := fun (x : Bool) => if x then '1' else '0'
      (st, str "hyp nogenerics=" ++ [b (FactsCheck.noGenericsB t)] ++ str " wellformed=" ++ [b (FactsCheck.wellFormedB st.v2 t)] ++
        str " consistent=" ++ [b (FactsCheck.consistentB st.v2 t)])
    else if op = str "inputs" then (st, hexList (st.ls.requested.mergeSort Str.le))
    else if op = str "dump" then (st, hex (dump st.ls.u))
    else (st, str "bad-op")
  | _ => (st, str "bad-op")

end Gengo.Driver.Universe

import Gengo.Basic.Proto
import Gengo.Model.Assemble
namespace Gengo.Driver.Assemble
open Gengo Gengo.Proto Gengo.Exec Gengo.Assemble

def handle : List Str → Str
  | [op, header, pkg, imports, vars, consts, body] =>
    if op = str "file" then
      let imps := unhexList imports
      -- the set semantics of File.Imports: duplicates contributed twice are one key
      let set := imps.foldl (fun acc i => if acc.contains i then acc else acc ++ [i]) []
      let f : File := ⟨[], [], unhex pkg, unhex header, set, unhex vars, unhex consts, unhex body⟩
      hex (assemble f) ++ [' '] ++ hexList (formattedBlock set)
    else str "bad-op"
  | [op, header, pkg, imports, vars, consts, body, fmtFails] =>
    if op = str "afile" then
      -- `AssembleFile` into an existing directory; whether Format fails on the text is a fact about the
      -- external formatter carried by the line
      let imps := unhexList imports
      let f : File := ⟨"zz.go".toList, [], unhex pkg, unhex header, imps, unhex vars, unhex consts, unhex body⟩
      let fmt : Str → Option Str := fun s => if fmtFails = ['1'] then none else some s
      let d0 : Disk := ⟨["d".toList], []⟩
      let r := assembleFile fmt d0 f "d/zz.go".toList
      if fmtFails = ['1'] then
        str "err=" ++ (if r.2 then ['0'] else ['1']) ++ str " content=" ++ hex ((r.1.readFile "d/zz.go".toList).getD [])
      else str "err=" ++ (if r.2 then ['0'] else ['1'])
    else str "bad-op"
  | _ => str "bad-op"

end Gengo.Driver.Assemble

import Gengo.Basic.Proto
import Gengo.Model.Assemble
namespace Gengo.Driver.Assemble
open Gengo Gengo.Proto Gengo.Exec Gengo.Assemble

def handle : List Str → Str
  | [op, header, pkg, imports, vars, consts, body] =>
    if op = str "file" then
      let imps := unhexList imports
      -- the set semantics of File.Imports: duplicates contributed twice are one key
      let set := imps.foldl (fun acc i => if acc.contains i then acc else acc ++ [i]) []
      let f : File := ⟨[], [], unhex pkg, unhex header, set, unhex vars, unhex consts, unhex body⟩
      hex (assemble f) ++ [' '] ++ hexList (formattedBlock set)
    else str "bad-op"
  | _ => str "bad-op"

end Gengo.Driver.Assemble

import Gengo.Basic.Proto
import Gengo.Model.Ty
/-! Prefix encoding of type trees in protocol fields (tokens separated by spaces):
`n <hexpkg> <hexname>` | `b <hexname>` | `m K E` | `s E` | `a <len> E` | `p E` | `c E` |
`t <n> (<hexfield> T)*n` | `i <n> <hexname>*n` | `f <np> <nr> T*` | `o <hexkind>` -/
namespace Gengo.Driver
open Gengo Gengo.Proto

mutual
partial def parseTy : List Str → Option (Ty × List Str)
  | tok :: rest =>
    if tok = ['n'] then match rest with
      | p :: n :: r => some (.named (unhex p) (unhex n), r)
      | _ => none
    else if tok = ['b'] then match rest with
      | n :: r => some (.builtin (unhex n), r)
      | _ => none
    else if tok = ['o'] then match rest with
      | n :: r => some (.other (unhex n), r)
      | _ => none
    else if tok = ['m'] then do
      let (k, r) ← parseTy rest
      let (e, r) ← parseTy r
      pure (.map k e, r)
    else if tok = ['s'] then do let (e, r) ← parseTy rest; pure (.slice e, r)
    else if tok = ['p'] then do let (e, r) ← parseTy rest; pure (.pointer e, r)
    else if tok = ['c'] then do let (e, r) ← parseTy rest; pure (.chan e, r)
    else if tok = ['a'] then match rest with
      | l :: r => do let (e, r) ← parseTy r; pure (.array (natOf l) e, r)
      | _ => none
    else if tok = ['t'] then match rest with
      | n :: r => do let (ms, r) ← parseMembers (natOf n) r; pure (.struct ms, r)
      | _ => none
    else if tok = ['i'] then match rest with
      | n :: r => some (.iface ((r.take (natOf n)).map unhex), r.drop (natOf n))
      | _ => none
    else if tok = ['f'] then match rest with
      | np :: nr :: r => do
        let (ps, r) ← parseTys (natOf np) r
        let (rs, r) ← parseTys (natOf nr) r
        pure (.func ps rs, r)
      | _ => none
    else none
  | [] => none
partial def parseTys : Nat → List Str → Option (Tys × List Str)
  | 0, r => some (.nil, r)
  | n + 1, r => do
    let (t, r) ← parseTy r
    let (ts, r) ← parseTys n r
    pure (.cons t ts, r)
partial def parseMembers : Nat → List Str → Option (Members × List Str)
  | 0, r => some (.nil, r)
  | n + 1, r => match r with
    | f :: r => do
      let (t, r) ← parseTy r
      let (ms, r) ← parseMembers n r
      pure (.cons (unhex f) t ms, r)
    | [] => none
end

/-- a whole field holding one type -/
def tyOfField (f : Str) : Option Ty :=
  match parseTy (Str.splitOn ' ' f) with
  | some (t, []) => some t
  | _ => none

/-- a field holding several types separated by `;` -/
def tysOfField (f : Str) : List (Option Ty) :=
  if f = ['-'] then [] else (Str.splitOn ';' f).map tyOfField

end Gengo.Driver

import Gengo.Basic.Proto
import Gengo.Model.Flatten
namespace Gengo.Driver.Flatten
open Gengo Gengo.Proto Gengo.Flatten

mutual
partial def parseMem : List Str → Option (Mem × List Str)
  | n :: e :: s :: t :: k :: r => do
    let (sub, r) ← parseMems (natOf k) r
    pure (.mk (unhex n) (e = ['1']) (s = ['1']) (natOf t) sub, r)
  | _ => none
partial def parseMems : Nat → List Str → Option (Mems × List Str)
  | 0, r => some (.nil, r)
  | k + 1, r => do
    let (m, r) ← parseMem r
    let (ms, r) ← parseMems k r
    pure (.cons m ms, r)
end

def handle : List Str → Str
  | [op, f] =>
    if op = str "mems" then
      match Str.splitOn ' ' f with
      | k :: r => match parseMems (natOf k) r with
        | some (ms, []) => match flatten ms with
          | none => str "panic"
          | some l => if l.isEmpty then ['-'] else Str.join [','] (l.map fun (n, t) => hex n ++ [':'] ++ ofNat t)
        | _ => str "bad-mems"
      | _ => str "bad-mems"
    else str "bad-op"
  | _ => str "bad-op"

end Gengo.Driver.Flatten

import Gengo.Basic.Proto
import Gengo.Model.Tracker
namespace Gengo.Driver.Tracker
open Gengo Gengo.Proto Gengo.Tracker

def showMap (m : List (Str × Str)) : Str :=
  Str.join [';'] ((m.mergeSort (fun a b => Str.le a.1 b.1)).map fun (k, v) => hex k ++ ['='] ++ hex v)

def dump (t : T) : Str := showMap t.p2n ++ ['|'] ++ showMap t.n2p

def handle (t : T) : List Str → T × Str
  | [op] =>
    if op = str "lines" then (t, hexList (importLines t)) else (t, str "bad-op")
  | [op, a] =>
    if op = str "addt" then
      match addSymbol t (unhex a) [] with
      | .panic => (t, str "panic")
      | .ok t' => (t', dump t')
    else if op = str "nameof" then (t, hex (localNameOf t (unhex a)))
    else if op = str "pathof" then
      (t, match pathOf t (unhex a) with
          | none => ['0']
          | some p => ['1', ' '] ++ hex p)
    else (t, str "bad-op")
  | [op, a, b] =>
    if op = str "new" then (new (a = str "v2") (unhex b), str "ok")
    else if op = str "add" then
      match addSymbol t (unhex a) (unhex b) with
      | .panic => (t, str "panic")
      | .ok t' => (t', dump t')
    else (t, str "bad-op")
  | _ => (t, str "bad-op")

end Gengo.Driver.Tracker

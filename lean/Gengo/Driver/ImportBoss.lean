import Gengo.Basic.Proto
import Gengo.Model.ImportBoss
namespace Gengo.Driver.ImportBoss
open Gengo Gengo.Proto Gengo.Closure Gengo.ImportBoss

/-- selector matching for the harness's selector alphabet (literals of letters, digits, '/', '-',
optionally anchored with ^ and $; "" and ".*" match everything); the harness checks this against
package regexp on every (selector, path) pair it uses -/
def simpleMatch (sel v : Str) : Bool :=
  let a := sel.head? = some '^'
  let s1 := if a then sel.drop 1 else sel
  let e := s1.getLast? = some '$'
  let lit := if e then s1.dropLast else s1
  if lit = ".*".toList || lit.isEmpty then true
  else if a && e then v = lit
  else if a then lit.isPrefixOf v
  else if e then lit.isSuffixOf v
  else (Str.index lit v).isSome

structure St where
  paths : List Str := []                 -- package paths in declaration (= sorted) order; id = index
  edges : List (Nat × Nat) := []
  files : List (Str × RFile) := []

def idOf (st : St) (p : Str) : Nat := (st.paths.idxOf p)
def pathOf (st : St) (i : Nat) : Str := st.paths.getD i []
def graph (st : St) : Graph := ⟨st.paths.length, st.edges⟩

def parseRule (f : Str) : Rule :=
  match Str.splitOn ':' f with
  | [s, a, fb] => ⟨unhex s, unhexList a, unhexList fb⟩
  | _ => ⟨[], [], []⟩

def parseInv (f : Str) : InvRule :=
  match Str.splitOn ':' f with
  | [t, s, a, fb] => ⟨⟨unhex s, unhexList a, unhexList fb⟩, t = ['1']⟩
  | _ => ⟨⟨[], [], []⟩, false⟩

def parseList {α} (p : Str → α) (f : Str) : List α := if f = ['-'] then [] else (Str.splitOn ';' f).map p

def verdict (st : St) (pkg : Str) : Bool :=
  let g := graph st
  let p := idOf st pkg
  let stack := stackFor st.files pkg
  let imps := (allImports g p).map (pathOf st)
  let trans := (transitiveImporters g p).map (pathOf st)
  let direct := (directImporters g p).map (pathOf st)
  passes simpleMatch stack imps && passesInv simpleMatch stack trans (fun v => direct.contains v)

def handle (st : St) : List Str → St × Str
  | [op] =>
    if op = str "new" then ({}, str "ok")
    else if op = str "closure" then
      let g := graph st
      (st, Str.join [';'] ((inKeys g).map fun k =>
        hex (pathOf st k) ++ ['='] ++ hexList ((transitiveImporters g k).map (pathOf st))))
    else (st, str "bad-op")
  | [op, a] =>
    if op = str "pkg" then ({ st with paths := st.paths ++ [unhex a] }, str "ok")
    else if op = str "verdict" then (st, if verdict st (unhex a) then str "pass" else str "fail")
    else if op = str "imports" then
      (st, hexList ((allImports (graph st) (idOf st (unhex a))).map (pathOf st)))
    else (st, str "bad-op")
  | [op, a, b] =>
    if op = str "edge" then ({ st with edges := st.edges ++ [(idOf st (unhex a), idOf st (unhex b))] }, str "ok")
    else (st, str "bad-op")
  | [op, d, rules, inv] =>
    if op = str "file" then
      ({ st with files := AL.insert (unhex d) ⟨parseList parseRule rules, parseList parseInv inv⟩ st.files }, str "ok")
    else (st, str "bad-op")
  | _ => (st, str "bad-op")

end Gengo.Driver.ImportBoss

import Gengo.Basic.Proto
import Gengo.Model.BuildTag
import Gengo.Generated.Facts
namespace Gengo.Driver.BuildTag
open Gengo Gengo.Proto Gengo.BuildTag

/-- Polish notation, tokens separated by blanks: `&`, `|`, `!`, `t:<hex>` -/
def parseExpr (s : Str) : Option Expr :=
  let toks := (Str.splitOn ' ' s).reverse
  let st := toks.foldl (fun (acc : Option (List Expr)) tok =>
    match acc with
    | none => none
    | some stack =>
      if tok = ['!'] then
        match stack with
        | a :: r => some (.not a :: r)
        | _ => none
      else if tok = ['&'] then
        match stack with
        | a :: b :: r => some (.and a b :: r)
        | _ => none
      else if tok = ['|'] then
        match stack with
        | a :: b :: r => some (.or a b :: r)
        | _ => none
      else match tok with
        | 't' :: ':' :: h => some (.tag (unhex h) :: stack)
        | _ => none) (some [])
  match st with
  | some [e] => some e
  | _ => none

def kGen : Str := "Gen_".toList
def kT : Str := "T:".toList

/-- the in-place tool of the harness: one `type Gen_X struct{}` per visible type `X`, in sorted order -/
def inplace (tag out : Str) : Tool :=
  { tag := tag, out := out,
    gen := fun u => Str.join [','] (((u.filter (fun i => kT.isPrefixOf i)).map (fun i => kGen ++ i.drop 2)).mergeSort Str.le),
    decls := fun b => if b.isEmpty then [] else (Str.splitOn ',' b).map (fun n => kT ++ n) }

abbrev St := List SrcFile

def handle (st : St) : List Str → St × Str
  | op :: rest =>
    if op = str "reset" then ([], str "ok")
    else if op = str "src" || op = str "dep" then (st, str "ok")
    else if op = str "file" then
      match rest with
      | [name, c, items] =>
        let ce := if c = ['-'] then some none else (parseExpr c).map some
        match ce with
        | none => (st, str "bad-constraint")
        | some ce => (st.filter (fun f => f.name ≠ unhex name) ++ [⟨unhex name, ce, unhexList items⟩], str "ok")
      | _ => (st, str "bad-op")
    else if op = str "visible" then
      match rest with
      | [tags] => (st, hexList ((contents (unhexList tags) st).eraseDups.mergeSort Str.le))   -- the universe is a set of items
      | _ => (st, str "bad-op")
    else if op = str "run" then
      match rest with
      | [tag, out] =>
        let t := inplace (unhex tag) (unhex out)
        (t.run st, hex (t.bytes st))
      | _ => (st, str "bad-op")
    else if op = str "runwild" then
      -- the output goes to a directory of its own: package p's tree is unchanged
      match rest with
      | [tag, out] => (st, hex ((inplace (unhex tag) (unhex out)).bytes st))
      | _ => (st, str "bad-op")
    else if op = str "header" then
      match rest with
      | [which, tag] =>
        let f := if which = str "v2" then Generated.headerFmtV2 else Generated.headerFmtDeepcopy
        (st, hex (sprintf f.toList [unhex tag, unhex tag]))
      | _ => (st, str "bad-op")
    else if op = str "headerfile" then
      -- a header with a boilerplate file: what comes after the constraint lines is judged by the harness's oracle only
      (st, str "ok")
    else (st, str "bad-op")
  | _ => (st, str "bad-op")

end Gengo.Driver.BuildTag

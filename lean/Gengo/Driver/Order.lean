import Gengo.Basic.Proto
import Gengo.Model.Order
namespace Gengo.Driver.Order
open Gengo Gengo.Proto Gengo.Order

def ids (s : Str) : List Nat := if s = ['-'] then [] else (Str.splitOn ',' s).map natOf
def showIds (l : List Nat) : Str := if l.isEmpty then ['-'] else Str.join [','] (l.map ofNat)

def handle : List Str → Str
  | [op, _namer, _spec, perm, keys, names] =>
    if op = str "universe" || op = str "context" then
      let ks := (unhexList keys).toArray
      let ns := (unhexList names).toArray
      let entries : List Entry := (ids perm).map fun i => (ks.getD i [], i)
      showIds (orderUniverse (fun i => ns.getD i []) entries)
    else str "bad-op"
  | [op, _namer, _spec, list, names] =>
    if op = str "types" then
      let ns := (unhexList names).toArray
      showIds (orderTypes (fun i => ns.getD i []) (ids list))
    else str "bad-op"
  | _ => str "bad-op"

end Gengo.Driver.Order

import Gengo.Basic.Proto
import Gengo.Model.Comments
namespace Gengo.Driver.Comments
open Gengo Gengo.Proto Gengo.Comments

def parseGroups (s : Str) : List Group :=
  if s = ['-'] then [] else
  (Str.splitOn ';' s).filterMap fun it =>
    match Str.splitOn ':' it with
    | [a, b, t, txt] => some ⟨natOf a, natOf b, t = ['1'], unhexList txt⟩
    | _ => none

def declLines (s : Str) : List Nat := if s = ['-'] then [] else (Str.splitOn ',' s).map natOf

def both (gs : List Group) (code : List Nat) (l : Nat) : Str :=
  hexList (docComment gs l) ++ ['/'] ++ hexList (secondClosest gs code l)

def handle : List Str → Str
  | op :: rest =>
    -- source text and the generator's intent are for the real loader and the oracle only
    if op = str "src" || op = str "want" || op = str "wantpkg" || op = str "importer" then str "ok"
    else match rest with
      | [groups, code, lines] =>
        let gs := parseGroups groups
        if op = str "attr" then Str.join ['|'] ((declLines lines).map (both gs (declLines code)))
        else if op = str "doc" then Str.join ['|'] ((declLines lines).map fun l => hexList (docComment gs l))
        else str "bad-op"
      | _ => str "bad-op"
  | _ => str "bad-op"

end Gengo.Driver.Comments

import Gengo.Basic.Proto
import Gengo.Model.JsonTag
namespace Gengo.Driver.JsonTag
open Gengo Gengo.Proto Gengo.JsonTag

def b01 (b : Bool) : Str := if b then ['1'] else ['0']

def showJ (j : J) : Str :=
  hex j.name ++ [' '] ++ b01 j.omitted ++ [' '] ++ b01 j.inl ++ [' '] ++ b01 j.omitempty

def handle : List Str → Str
  | [op, f, tag, _raw] =>
    if op = str "lookup" then showJ (lookupJSON (unhex f) (unhex tag))
    else if op = str "rt" then showJ (lookupJSON (unhex f) (render (lookupJSON (unhex f) (unhex tag))))
    else str "bad-op"
  | [op, name, o, i, e] =>
    if op = str "render" then hex (render ⟨unhex name, o = ['1'], i = ['1'], e = ['1']⟩) else str "bad-op"
  | _ => str "bad-op"

end Gengo.Driver.JsonTag

import Gengo.Basic.Proto
import Gengo.Model.SetGen
namespace Gengo.Driver.SetGen
open Gengo Gengo.Proto Gengo.SetGen

abbrev Key := List Nat
structure St where
  heap : Heap Key := []

def parseKey (s : Str) : Key := (Str.splitOn ',' s).map natOf
def parseKeys (s : Str) : List Key := if s = ['-'] then [] else (Str.splitOn ';' s).map parseKey
def showKey (k : Key) : Str := Str.join [','] (k.map ofNat)
def showKeys (l : List Key) : Str := if l.isEmpty then ['-'] else Str.join [';'] (l.map showKey)
def sorted (s : Keys Key) : List Key := list lexLess s
def dump (h : Heap Key) : Str := Str.join [' '] (h.map fun s => ['{'] ++ showKeys (sorted s) ++ ['}'])
def out (r : Str) (h : Heap Key) : Str := str "r=" ++ r ++ str " | " ++ dump h
def b (x : Bool) : Str := if x then ['1'] else ['0']

def handle (st : St) : List Str → St × Str
  | [op] => if op = str "reset" then ({}, out ['-'] []) else (st, str "bad-op")
  | [op, a] =>
    let h := st.heap
    if op = str "reset" then ({}, out ['-'] [])
    else if op = str "new" then let r := alloc h (insertAll [] (parseKeys a)); ({ heap := r.1 }, out (ofNat r.2) r.1)
    else
      let i := natOf a
      let s := get h i
      if op = str "clone" then let r := alloc h (clone s); ({ heap := r.1 }, out (ofNat r.2) r.1)
      else if op = str "list" then (st, out (showKeys (list lexLess s)) h)
      else if op = str "len" then (st, out (ofNat s.length) h)
      else if op = str "popany" then
        let r := popAny s
        let h' := put h i r.2
        ({ heap := h' }, out (match r.1 with | none => str "none" | some k => showKey k) h')
      else (st, str "bad-op")
  | [op, a, c] =>
    let h := st.heap
    let i := natOf a
    let s := get h i
    if op = str "regen" then (st, str "ok")   -- input program and checker wiring: for the real set-gen only
    else if op = str "insert" then let h' := put h i (insertAll s (parseKeys c)); ({ heap := h' }, out ['-'] h')
    else if op = str "delete" then let h' := put h i (deleteAll s (parseKeys c)); ({ heap := h' }, out ['-'] h')
    else if op = str "has" then (st, out (b (has s (parseKey c))) h)
    else if op = str "hasall" then (st, out (b (hasAll s (parseKeys c))) h)
    else if op = str "hasany" then (st, out (b (hasAny s (parseKeys c))) h)
    else
      let t := get h (natOf c)
      if op = str "union" then let r := alloc h (union s t); ({ heap := r.1 }, out (ofNat r.2) r.1)
      else if op = str "inter" then let r := alloc h (inter s t); ({ heap := r.1 }, out (ofNat r.2) r.1)
      else if op = str "diff" then let r := alloc h (diff s t); ({ heap := r.1 }, out (ofNat r.2) r.1)
      else if op = str "symdiff" then let r := alloc h (symdiff s t); ({ heap := r.1 }, out (ofNat r.2) r.1)
      else if op = str "superset" then (st, out (b (isSuperset s t)) h)
      else if op = str "equal" then (st, out (b (equal s t)) h)
      else (st, str "bad-op")
  | _ => (st, str "bad-op")

end Gengo.Driver.SetGen

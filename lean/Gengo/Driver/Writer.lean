import Gengo.Basic.Proto
import Gengo.Model.Writer
namespace Gengo.Driver.Writer
open Gengo Gengo.Proto Gengo.Writer

structure St where
  sinks : List Sink := []       -- A, B
  errs : List (Option Err) := []  -- sw0 (on A), sw1 (on B after dup)
  onB : Bool := false           -- sw1 exists
  heap : Heap := []
  v2 : Bool := false

def mkSink (fails : Str) (tracked : Str) : Sink :=
  let fl := if fails = ['-'] then [] else (Str.splitOn ',' fails).map natOf
  ⟨⟨[], 0, fun n => if fl.contains n then some n else none⟩, tracked = ['1'], none⟩

def showErr : Option Err → Str
  | none => ['-']
  | some .parse => str "parse"
  | some .exec => str "exec"
  | some (.write n) => str "write" ++ ofNat n

def showSink (s : Sink) : Str := ofNat s.w.calls ++ [':'] ++ hexList s.w.log

def dump (st : St) (ret : Option Err) : Str :=
  str "r=" ++ showErr ret ++ str " s0=" ++ showErr (st.errs.getD 0 none) ++
  str " s1=" ++ (if st.onB then showErr (st.errs.getD 1 none) else ['x']) ++
  str " A=" ++ (match st.sinks[0]? with | some s => showSink s | none => []) ++
  str " B=" ++ (match st.sinks[1]? with | some s => showSink s | none => [])

def parseEngine (f : List Str) : Engine :=
  match f with
  | [p] => if p = ['P'] then .parseErr else .run [] false
  | [_, chunks, e] => .run (unhexList chunks) (e = ['1'])
  | _ => .parseErr

def setSink (st : St) (i : Nat) (s : Sink) : St := { st with sinks := st.sinks.set i s }
def setErr (st : St) (i : Nat) (e : Option Err) : St := { st with errs := st.errs.set i e }

def showHeap (h : Heap) : Str :=
  Str.join ['|'] (h.map fun m =>
    Str.join [';'] ((m.mergeSort (fun a b => Str.le a.1 b.1)).map fun (k, v) => hex k ++ ['='] ++ hex v))

def handle (st : St) : List Str → St × Str
  | op :: rest =>
    if op = str "new" then
      match rest with
      | fa :: fb :: ta :: tb :: _ =>
        let st' : St := { sinks := [mkSink fa ta, mkSink fb tb], errs := [none, none], onB := false, heap := st.heap, v2 := st.v2 }
        (st', dump st' none)
      | _ => (st, str "bad-op")
    else if op = str "do" then
      match rest with
      | i :: _tmpl :: eng =>
        let k := natOf i
        match st.sinks[k]? with
        | none => (st, str "bad-op")
        | some s =>
          let r := doStep s (st.errs.getD k none) (parseEngine eng)
          let st' := setErr (setSink st k r.1) k r.2
          (st', dump st' none)
      | _ => (st, str "bad-op")
    else if op = str "append" then
      match rest with
      | [i, data] =>
        let k := natOf i
        match st.sinks[k]? with
        | none => (st, str "bad-op")
        | some s =>
          let r := appendStep s (st.errs.getD k none) (unhex data)
          let st' := setErr (setSink st k r.1) k r.2.1
          (st', dump st' r.2.2)
      | _ => (st, str "bad-op")
    else if op = str "merge" then
      match rest with
      | [i, j, data] =>
        let k := natOf i
        match st.sinks[k]? with
        | none => (st, str "bad-op")
        | some s =>
          let r := mergeStep s (st.errs.getD k none) (st.errs.getD (natOf j) none) (unhex data)
          let st' := setErr (setSink st k r.1) k r.2.1
          (st', dump st' r.2.2)
      | _ => (st, str "bad-op")
    else if op = str "etwrite" then
      -- a write straight through the ErrorTracker in front of sink i (by Write or io.WriteString)
      match rest with
      | [i, _mode, data] =>
        let k := natOf i
        match st.sinks[k]? with
        | none => (st, str "bad-op")
        | some s =>
          let r := s.write (unhex data)
          let st' := setSink st k r.1
          (st', dump st' (r.2.map Err.write))
      | _ => (st, str "bad-op")
    else if op = str "renew" then
      -- the context's naming systems change in place and a new SnippetWriter is created on sink A
      let st' := setErr st 0 none
      (st', dump st' none)
    else if op = str "body" then
      -- executeBody over sink i: chunks written by the hooks reached, and whether the last one fails
      match rest with
      | i :: chunks :: hf :: _ =>
        let k := natOf i
        match st.sinks[k]? with
        | none => (st, str "bad-op")
        | some s =>
          let r := executeBodyW s (unhexList chunks) (hf = ['1'])
          let st' := setSink st k r.1
          (st', dump st' (match r.2 with | .ok => none | .hook => some .exec | .write c => some (.write c)))
      | _ => (st, str "bad-op")
    else if op = str "dup" then
      let st' := { setErr st 1 (st.errs.getD 0 none) with onB := true }
      (st', dump st' none)
    else if op = str "argsnew" then
      match rest with
      | [v] => let st' := { st with heap := [], v2 := v = str "v2" }; (st', showHeap st'.heap)
      | _ => (st, str "bad-op")
    else if op = str "argslit" then
      match rest with
      | [ks, vs] =>
        let st' := { st with heap := st.heap ++ [copyInto [] ((unhexList ks).zip (unhexList vs))] }
        (st', showHeap st'.heap)
      | _ => (st, str "bad-op")
    else if op = str "with" then
      match rest with
      | [a, k, v] => let st' := { st with heap := withKV st.v2 st.heap (natOf a) (unhex k) (unhex v) }; (st', showHeap st'.heap)
      | _ => (st, str "bad-op")
    else if op = str "withargs" then
      match rest with
      | [a, b] => let st' := { st with heap := withArgs st.v2 st.heap (natOf a) (natOf b) }; (st', showHeap st'.heap)
      | _ => (st, str "bad-op")
    else (st, str "bad-op")
  | _ => (st, str "bad-op")

end Gengo.Driver.Writer

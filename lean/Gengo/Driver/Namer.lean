import Gengo.Driver.TyParse
import Gengo.Model.Namer
namespace Gengo.Driver.Namer
open Gengo Gengo.Proto Gengo.Namer Gengo.Driver

def showRes : Option Str → Str
  | none => str "panic"
  | some s => hex s

def handle : List Str → Str
  | [op, a] =>
    if op = str "private" then (if isPrivateGoName (unhex a) then ['1'] else ['0']) else str "bad-op"
  | [op, ek, ev, fin, n] =>
    if op = str "plural" then
      let exc := (unhexList ek).zip (unhexList ev)
      -- Go map literal semantics: a later duplicate key overwrites; the harness never sends duplicates
      let f := if fin = str "ic" then Fin.ic else if fin = str "il" then Fin.il else Fin.lower
      hex (plural exc f (unhex n))
    else str "bad-op"
  | [op, pre, post, pub, ign, prep, tys, _order] =>
    if op = str "names" then
      let st : Strategy := ⟨unhex pre, unhex post, pub = ['1'], unhexList ign, natOf prep⟩
      Str.join [','] ((tysOfField tys).map fun
        | none => str "bad-type"
        | some t => showRes (name st t))
    else str "bad-op"
  | _ => str "bad-op"

end Gengo.Driver.Namer

import Gengo.Lemmas.WalkDesc
/-!
# What `walkType` leaves alone: declaration indices and package records (C01)

`walkType` only ever adds type objects, type-index entries and (stub) package records.  The indices of functions,
variables and constants are not touched and an existing package record is never changed.  With that, the facts
recorded by a package scan – the package's name and imports, each declaration with its type and constant value –
are still there after everything that is walked later.
-/
namespace Gengo.WalkSide
open Gengo Gengo.Universe Gengo.WalkInv Gengo.WalkDesc

/-- declaration indices unchanged, package records only added -/
structure Side (u u' : U) : Prop where
  funcs : u'.funcs = u.funcs
  vars : u'.vars = u.vars
  consts : u'.consts = u.consts
  pkgs : ∀ r ∈ u.pkgs, r ∈ u'.pkgs

theorem Side.refl (u : U) : Side u u := ⟨rfl, rfl, rfl, fun _ h => h⟩

theorem Side.trans {a b c : U} (h1 : Side a b) (h2 : Side b c) : Side a c :=
  ⟨h2.funcs.trans h1.funcs, h2.vars.trans h1.vars, h2.consts.trans h1.consts, fun r h => h2.pkgs r (h1.pkgs r h)⟩

theorem package_side (u : U) (p : Str) : Side u (u.package p) := by
  unfold U.package
  split
  · exact Side.refl u
  · exact ⟨rfl, rfl, rfl, fun r h => List.mem_append_left _ h⟩

theorem modify_side (u : U) (o : Nat) (f : Obj → Obj) : Side u (u.modify o f) := ⟨rfl, rfl, rfl, fun _ h => h⟩

theorem newObj_side (u : U) (ob : Obj) : Side u (u.newObj ob).1 := ⟨rfl, rfl, rfl, fun _ h => h⟩

theorem type_side (bt : List Builtin) (u : U) (n : Name) : Side u (U.type bt u n).1 := by
  unfold U.type
  cases hl : AL.lookup n u.types with
  | some o => exact Side.refl u
  | none =>
    simp only
    have hp := package_side u n.pkg
    cases hb : (if n.pkg.isEmpty = true then bt.find? (fun b => b.key = n.name) else none) with
    | none => exact ⟨hp.funcs, hp.vars, hp.consts, hp.pkgs⟩
    | some b =>
      simp only
      cases hbo : AL.lookup b.var (u.package n.pkg).builtinObjs with
      | some o => exact ⟨hp.funcs, hp.vars, hp.consts, hp.pkgs⟩
      | none => exact ⟨hp.funcs, hp.vars, hp.consts, hp.pkgs⟩

def WalkSideOK (w : U → Nat → Option Name → Option (U × Nat)) : Prop :=
  ∀ u c un u' oc, w u c un = some (u', oc) → Side u u'

theorem runKids_side {w : U → Nat → Option Name → Option (U × Nat)} (hw : WalkSideOK w) (o : Nat) :
    ∀ (kids : List (Nat × Option Name × Setter)) (u u' : U), runKids w o u kids = some u' → Side u u' := by
  intro kids
  induction kids with
  | nil => intro u u' hr; simp only [runKids, Option.some.injEq] at hr; subst hr; exact Side.refl u
  | cons k ks ih =>
    intro u u' hr
    obtain ⟨c, un, set⟩ := k
    simp only [runKids] at hr
    cases hwc : w u c un with
    | none => simp [hwc] at hr
    | some p =>
      obtain ⟨u1, oc⟩ := p
      simp only [hwc] at hr
      exact (hw u c un u1 oc hwc).trans ((modify_side u1 o _).trans (ih _ _ hr))

theorem fill_side {bt : List Builtin} {w : U → Nat → Option Name → Option (U × Nat)} (hw : WalkSideOK w)
    (u : U) (n : Name) (g : Nat) (gn : GNode) (K : Kind) (kids : List (Nat × Option Name × Setter)) (u' : U) (o : Nat)
    (hf : fill bt w u n g gn K kids = some (u', o)) : Side u u' := by
  unfold fill at hf
  have s1 := type_side bt u n
  by_cases hk : (U.type bt u n).1.kind (U.type bt u n).2 ≠ .unknown
  · simp only [hk, ne_eq, not_false_eq_true, if_true, Option.some.injEq] at hf
    have e1 : (U.type bt u n).1 = u' := by rw [hf]
    rw [← e1]; exact s1
  · simp only [hk, if_false] at hf
    cases hr : runKids w (U.type bt u n).2 ((U.type bt u n).1.modify (U.type bt u n).2 (fun ob => markFields gn { ob with kind := K, src := some g })) kids with
    | none => simp [hr] at hf
    | some u3 =>
      simp only [hr, Option.some.injEq, Prod.mk.injEq] at hf
      obtain ⟨rfl, rfl⟩ := hf
      exact s1.trans ((modify_side _ _ _).trans (runKids_side hw _ kids _ _ hr))

theorem addMethods_side {w : U → Nat → Option Name → Option (U × Nat)} (hw : WalkSideOK w) (v2 : Bool)
    (u : U) (o : Nat) (ms : List GMethod) {g : Nat} (u' : U) (o' : Nat) (hf : addMethods v2 w u o ms g = some (u', o')) : Side u u' := by
  unfold addMethods at hf
  split at hf
  · cases hr : runKids w o (u.modify o (fun ob => { ob with nsrc := some g, nskip := false })) (methodKids v2 ms) with
    | none => simp [hr] at hf
    | some u3 =>
      simp only [hr, Option.some.injEq, Prod.mk.injEq] at hf
      obtain ⟨rfl, rfl⟩ := hf
      exact (modify_side u o _).trans (runKids_side hw o _ _ _ hr)
  · simp only [Option.some.injEq, Prod.mk.injEq] at hf
    obtain ⟨rfl, rfl⟩ := hf
    exact modify_side u o _

/-- **walk_leaves_declarations_and_packages_alone** -/
theorem walk_side (bt : List Builtin) (F : Facts) (v2 : Bool) :
    ∀ fuel, WalkSideOK (fun u c un => walk bt F v2 fuel u c un) := by
  intro fuel
  induction fuel with
  | zero => intro u c un u' oc hw; simp [walk] at hw
  | succ fuel ih =>
    intro u g useName u' o hw
    cases hn : F.node g with
    | alias tgt => simp only [walk, hn] at hw; exact ih u tgt none u' o hw
    | basic nm => simp only [walk, hn] at hw; exact fill_side ih u _ g _ _ _ u' o hw
    | tparam c =>
      simp only [walk, hn, Option.some.injEq] at hw
      have e : (u.newObj { name := useName.getD (nameOf v2 (F.str g)), kind := .typeParam, src := some g }).1 = u' := by rw [hw]
      rw [← e]; exact newObj_side u _
    | named und ms tps ou =>
      simp only [walk, hn] at hw
      by_cases ha : isAliasUnder (F.node und) = true
      · simp only [ha, if_true] at hw
        have s1 := type_side bt u (nameOf v2 (F.str g))
        by_cases hk : (U.type bt u (nameOf v2 (F.str g))).1.kind (U.type bt u (nameOf v2 (F.str g))).2 ≠ .unknown
        · simp only [hk, ne_eq, not_false_eq_true, if_true, Option.some.injEq] at hw
          have e1 : (U.type bt u (nameOf v2 (F.str g))).1 = u' := by rw [hw]
          rw [← e1]; exact s1
        · simp only [hk, if_false] at hw
          cases hr : runKids (fun u c un => walk bt F v2 fuel u c un) (U.type bt u (nameOf v2 (F.str g))).2
              ((U.type bt u (nameOf v2 (F.str g))).1.modify (U.type bt u (nameOf v2 (F.str g))).2 (fun ob => { ob with kind := .alias, src := some g }))
              [(und, none, .under)] with
          | none => simp [hr] at hw
          | some u3 =>
            simp only [hr] at hw
            exact s1.trans ((modify_side _ _ _).trans ((runKids_side ih _ _ _ _ hr).trans (addMethods_side ih v2 u3 _ ms u' o hw)))
      · simp only [ha, Bool.false_eq_true, if_false] at hw
        by_cases hsi : (v2 && isStructOrIface (F.node und)) = true
        · simp only [hsi, if_true] at hw
          cases hr0 : runKids (fun u c un => walk bt F v2 fuel u c un) 0 u (tps.map (fun tp => (tp.2, none, Setter.drop))) with
          | none => simp [hr0] at hw
          | some u1 =>
            simp only [hr0] at hw
            have s0 := runKids_side ih 0 _ _ _ hr0
            generalize hnm : (if tps.isEmpty = true then nameOf v2 (F.str g) else genericName (nameOf v2 (F.str g)) tps) = n' at hw
            have s1 := type_side bt u1 n'
            by_cases hk : (U.type bt u1 n').1.kind (U.type bt u1 n').2 ≠ .unknown
            · simp only [hk, ne_eq, not_false_eq_true, if_true, Option.some.injEq] at hw
              have e1 : (U.type bt u1 n').1 = u' := by rw [hw]
              rw [← e1]; exact s0.trans s1
            · simp only [hk, if_false] at hw
              cases hw2 : walk bt F v2 fuel (U.type bt u1 n').1 ou (some n') with
              | none => simp [hw2] at hw
              | some p =>
                obtain ⟨u3, o3⟩ := p
                simp only [hw2] at hw
                have s3 := ih _ _ _ _ _ hw2
                cases hr5 : runKids (fun u c un => walk bt F v2 fuel u c un) o3 (u3.modify o3 (fun ob => { ob with tparams := [] }))
                    (tps.map (fun tp => (tp.2, none, Setter.tparam tp.1))) with
                | none => simp [hr5] at hw
                | some u5 =>
                  simp only [hr5] at hw
                  exact s0.trans (s1.trans (s3.trans ((modify_side _ _ _).trans ((runKids_side ih o3 _ _ _ hr5).trans
                    (addMethods_side ih v2 u5 o3 ms u' o hw)))))
        · simp only [hsi, Bool.false_eq_true, if_false] at hw
          have s1 := type_side bt u (nameOf v2 (F.str g))
          by_cases hk : (U.type bt u (nameOf v2 (F.str g))).1.kind (U.type bt u (nameOf v2 (F.str g))).2 ≠ .unknown
          · simp only [hk, ne_eq, not_false_eq_true, if_true, Option.some.injEq] at hw
            have e1 : (U.type bt u (nameOf v2 (F.str g))).1 = u' := by rw [hw]
            rw [← e1]; exact s1
          · simp only [hk, if_false] at hw
            cases hw2 : walk bt F v2 fuel (U.type bt u (nameOf v2 (F.str g))).1 und (some (nameOf v2 (F.str g))) with
            | none => simp [hw2] at hw
            | some p =>
              obtain ⟨u3, o3⟩ := p
              simp only [hw2] at hw
              exact s1.trans ((ih _ _ _ _ _ hw2).trans (addMethods_side ih v2 u3 o3 ms u' o hw))
    | _ =>
      have hsh : ∃ K kids, shape v2 (F.node g) = some (K, kids) := by rw [hn]; exact ⟨_, _, rfl⟩
      obtain ⟨K, kids, hsh⟩ := hsh
      have hw' : fill bt (fun u c un => walk bt F v2 fuel u c un) u (useName.getD (nameOf v2 (F.str g))) g (F.node g) K kids = some (u', o) := by
        simp only [walk, hn] at hw
        rw [hn] at hsh ⊢
        simp only [hsh] at hw
        exact hw
      exact fill_side ih u _ g (F.node g) K kids u' o hw'

/-! ## a declaration: what is recorded right after `addDecl` -/

theorem decl_idx (u : U) (d : Decl) (n : Name) : AL.lookup n (declIdx (u.decl d n).1 d) = some (u.decl d n).2 := by
  cases d <;> (
    unfold U.decl
    simp only [declIdx]
    split
    · rename_i o ho; exact ho
    · exact lookup_cons_self _ _ _)

/-- **declaration_recorded**: after a function, variable or constant of a scanned package has been added, the
declaration is registered under its name in its index, is a `DeclarationOf` object whose underlying type is the
object that stands for the declaration's Go type, and – for a constant – carries the constant's value -/
theorem addDecl_records {bt : List Builtin} (F : Facts) (v2 : Bool) (hwf : WellFormed F v2) (fuel : Nat) (u : U)
    (d : Decl) (n : Name) (ty : Nat) (cv : Option Str) (u' : U) (h : Full bt F v2 u)
    (hf : addDecl bt F v2 fuel u d n ty cv = some u') :
    ∃ (o : Nat) (ob : Obj), AL.lookup n (declIdx u' d) = some o ∧ u'.objs[o]? = some ob ∧ ob.kind = .declarationOf ∧
      ElemIs F v2 u' ob.under ty ∧ (∀ v, cv = some v → ob.constVal = some v) := by
  unfold addDecl at hf
  obtain ⟨h1, g1, ob, hob, hk⟩ := decl_inv (bt := bt) d n h.1
  have d1 := decl_dinv (F := F) (v2 := v2) (P := []) d n h.1 h.2
  have hsrc : ob.src = none := by
    rcases decl_new u d n _ ob hob with hold | hnew
    · cases hsr : ob.src with
      | none => rfl
      | some g =>
        rcases h.2.desc _ ob g hold hsr with hp | hd
        · cases hp
        · unfold Desc at hd
          cases hn : F.node g <;> simp only [hn] at hd <;> first
            | (have := hd.1; rw [hk] at this; cases this)
            | (rw [hk] at hd; cases hd)
            | exact hd.elim
    · exact hnew.2.1
  obtain ⟨h2, g2⟩ := modify_inv (o := (u.decl d n).2) (f := fun ob => { ob with kind := .declarationOf })
    (fun ob' hob' => ⟨rfl, fun _ => by rw [hob] at hob'; cases hob'; exact hk.symm, fun r hr => .inl hr⟩) h1
  have d2 : DInv F v2 ((u.decl d n).1.modify (u.decl d n).2 (fun ob => { ob with kind := .declarationOf })) [] :=
    modify_nosrc_dinv g2 (fun ob' hob' => by rw [hob] at hob'; cases hob'; exact ⟨by simp, hsrc⟩)
      (fun _ => ⟨rfl, rfl, rfl, fun hh => by cases hh⟩) d1
  cases hw : walk bt F v2 fuel ((u.decl d n).1.modify (u.decl d n).2 (fun ob => { ob with kind := .declarationOf })) ty none with
  | none => simp [hw] at hf
  | some p =>
    obtain ⟨u3, o3⟩ := p
    simp only [hw, Option.some.injEq] at hf
    subst hf
    have p3 := walk_inv bt F v2 fuel _ _ _ _ _ h2 hw
    obtain ⟨d3, f3, r3, _⟩ := walk_desc bt F v2 hwf fuel _ ty none u3 o3 [] h2 d2 hw
    have s3 := walk_side bt F v2 fuel _ _ _ _ _ hw
    have hob3 : u3.objs[(u.decl d n).2]? = some { ob with kind := .declarationOf } :=
      f3 _ _ (modify_get_eq hob) (by simp)
    obtain ⟨_, g4⟩ := modify_inv (o := (u.decl d n).2)
      (f := fun ob => { ob with under := some o3, constVal := if cv.isSome = true then cv else ob.constVal })
      (fun ob' _ => ⟨rfl, fun _ => rfl, fun r hr => by
        simp only [refs, List.mem_append, Option.mem_toList] at hr ⊢
        rcases hr with (((((((hr | hr) | hr) | hr) | hr) | hr) | hr) | hr) | hr
        · exact .inl (.inl (.inl (.inl (.inl (.inl (.inl (.inl (.inl hr))))))))
        · exact .inl (.inl (.inl (.inl (.inl (.inl (.inl (.inl (.inr hr))))))))
        · right; simp only [Option.some.injEq] at hr; subst hr; exact p3.good
        · exact .inl (.inl (.inl (.inl (.inl (.inl (.inr hr))))))
        · exact .inl (.inl (.inl (.inl (.inl (.inr hr)))))
        · exact .inl (.inl (.inl (.inl (.inr hr))))
        · exact .inl (.inl (.inl (.inr hr)))
        · exact .inl (.inl (.inr hr))
        · exact .inl (.inr hr)⟩) p3.inv
    refine ⟨(u.decl d n).2, _, ?_, modify_get_eq hob3, rfl, ⟨o3, rfl, (r3 rfl).mono g4⟩, ?_⟩
    · -- the index entry made by `u.decl` is still there
      have hi := decl_idx u d n
      have hs : declIdx (u3.modify (u.decl d n).2 (fun ob => { ob with under := some o3, constVal := if cv.isSome = true then cv else ob.constVal })) d
          = declIdx (u.decl d n).1 d := by
        cases d
        · exact s3.funcs
        · exact s3.vars
        · exact s3.consts
      rw [hs]; exact hi
    · intro v hv
      subst hv
      simp


/-! ## the package record written by a scan -/

def PkgsKept (u u' : U) : Prop := ∀ r ∈ u.pkgs, r ∈ u'.pkgs

theorem decl_pkgsKept (u : U) (d : Decl) (n : Name) : PkgsKept u (u.decl d n).1 := by
  have hp := (package_side u n.pkg).pkgs
  cases d <;> (
    unfold U.decl
    simp only
    split
    · exact fun _ h => h
    · exact hp)

theorem addDecl_pkgsKept {bt : List Builtin} (F : Facts) (v2 : Bool) (fuel : Nat) (u : U) (d : Decl) (n : Name) (ty : Nat)
    (cv : Option Str) (u' : U) (hf : addDecl bt F v2 fuel u d n ty cv = some u') : PkgsKept u u' := by
  unfold addDecl at hf
  cases hw : walk bt F v2 fuel ((u.decl d n).1.modify (u.decl d n).2 (fun ob => { ob with kind := .declarationOf })) ty none with
  | none => simp [hw] at hf
  | some p =>
    obtain ⟨u3, o3⟩ := p
    simp only [hw, Option.some.injEq] at hf
    subst hf
    have s3 := walk_side bt F v2 fuel _ _ _ _ _ hw
    intro r hr
    exact s3.pkgs r (decl_pkgsKept u d n r hr)

theorem addObj_pkgsKept {bt : List Builtin} (F : Facts) (v2 : Bool) (fuel : Nat) (u : U) (ob : GObj) (u' : U)
    (hf : addObj bt F v2 fuel u ob = some u') : PkgsKept u u' := by
  unfold addObj at hf
  cases hk : ob.kind with
  | typeName =>
    simp only [hk] at hf
    cases hw : walk bt F v2 fuel u ob.ty none with
    | none => simp [hw] at hf
    | some p =>
      simp only [hw, Option.map_some, Option.some.injEq] at hf
      subst hf
      exact (walk_side bt F v2 fuel _ _ _ _ _ hw).pkgs
  | func => simp only [hk] at hf; exact addDecl_pkgsKept F v2 fuel u _ _ _ _ u' hf
  | var => simp only [hk] at hf; exact addDecl_pkgsKept F v2 fuel u _ _ _ _ u' hf
  | const => simp only [hk] at hf; exact addDecl_pkgsKept F v2 fuel u _ _ _ _ u' hf

theorem addObjs_pkgsKept {bt : List Builtin} (F : Facts) (v2 : Bool) (fuel : Nat) :
    ∀ (obs : List GObj) (u u' : U), addObjs bt F v2 fuel u obs = some u' → PkgsKept u u' := by
  intro obs
  induction obs with
  | nil => intro u u' hf; simp only [addObjs, Option.some.injEq] at hf; subst hf; exact fun _ h => h
  | cons ob rest ih =>
    intro u u' hf
    simp only [addObjs] at hf
    cases ha : addObj bt F v2 fuel u ob with
    | none => simp [ha] at hf
    | some u1 =>
      simp only [ha] at hf
      exact fun r hr => ih u1 u' hf r (addObj_pkgsKept F v2 fuel u ob u1 ha r hr)

theorem package_has (u : U) (p : Str) : ∃ r ∈ (u.package p).pkgs, r.path = p := by
  unfold U.package
  split
  · rename_i h
    simp only [List.any_eq_true, decide_eq_true_eq] at h
    exact h
  · exact ⟨{ path := p }, List.mem_append_right _ (List.mem_singleton.mpr rfl), rfl⟩

theorem foldl_package_kept (imps : List Str) : ∀ (u : U), PkgsKept u (imps.foldl (fun u i => u.package i) u) := by
  induction imps with
  | nil => intro u r h; exact h
  | cons i rest ih => intro u r h; exact ih (u.package i) r ((package_side u i).pkgs r h)

theorem mem_foldl_add (imps : List Str) : ∀ (acc : List Str) (i : Str), i ∈ acc ∨ i ∈ imps →
    i ∈ imps.foldl (fun acc i => if acc.contains i then acc else acc ++ [i]) acc := by
  induction imps with
  | nil => intro acc i h; rcases h with h | h; exact h; cases h
  | cons x rest ih =>
    intro acc i h
    simp only [List.foldl_cons]
    apply ih
    rcases h with h | h
    · left; split
      · exact h
      · exact List.mem_append_left _ h
    · rcases List.mem_cons.mp h with rfl | h
      · left; split
        · rename_i hc; simpa using hc
        · exact List.mem_append_right _ (List.mem_singleton.mpr rfl)
      · exact .inr h

/-- **package_recorded**: after the scan of a requested package the universe holds a record with the package's path, its
name and (at least) its direct imports -/
theorem scanPkg_records {bt : List Builtin} (F : Facts) (v2 : Bool) (fuel : Nat) (u : U) (p : GPkg) (u' : U)
    (hf : scanPkg bt F v2 fuel u p = some u') :
    ∃ r ∈ u'.pkgs, r.path = p.path ∧ r.name = p.name ∧ ∀ i ∈ p.imports, i ∈ r.imports := by
  unfold scanPkg at hf
  cases ha : addObjs bt F v2 fuel ((u.package p.path).setPkg p.path (fun r => { r with name := p.name })) p.scope with
  | none => simp [ha] at hf
  | some u2 =>
    simp only [ha, Option.some.injEq] at hf
    subst hf
    obtain ⟨r0, hr0, hp0⟩ := package_has u p.path
    -- the record after `setPkg`
    have h1 : ({ r0 with name := p.name } : PkgRec) ∈ ((u.package p.path).setPkg p.path (fun r => { r with name := p.name })).pkgs := by
      simp only [U.setPkg, List.mem_map]
      exact ⟨r0, hr0, by simp [hp0]⟩
    have h2 := addObjs_pkgsKept F v2 fuel _ _ _ ha _ h1
    -- `addImports`
    unfold U.addImports
    have h3 := (package_side u2 p.path).pkgs _ h2
    have h4 := foldl_package_kept (p.imports.mergeSort Str.le) _ _ h3
    refine ⟨{ ({ r0 with name := p.name } : PkgRec) with imports := (p.imports.mergeSort Str.le).foldl (fun acc i => if acc.contains i then acc else acc ++ [i]) r0.imports }, ?_, hp0, rfl, ?_⟩
    · simp only [U.setPkg, List.mem_map]
      exact ⟨_, h4, by simp [hp0]⟩
    · intro i hi
      exact mem_foldl_add _ _ _ (.inr ((List.mergeSort_perm p.imports _).symm.subset hi))


/-! ## every declaration of a scanned package is recorded, and stays recorded -/

/-- the declaration `(d, n)` of Go type `ty` (and constant value `cv`) is recorded in `u` -/
def Recorded (F : Facts) (v2 : Bool) (u : U) (d : Decl) (n : Name) (ty : Nat) (cv : Option Str) : Prop :=
  ∃ (o : Nat) (ob : Obj), AL.lookup n (declIdx u d) = some o ∧ u.objs[o]? = some ob ∧ ob.kind = .declarationOf ∧
    ElemIs F v2 u ob.under ty ∧ (∀ v, cv = some v → ob.constVal = some v)

/-- two entries of the declaration indices never share an object -/
def DeclInj (u : U) : Prop :=
  ∀ (d1 d2 : Decl) (n1 n2 : Name) (o : Nat), AL.lookup n1 (declIdx u d1) = some o → AL.lookup n2 (declIdx u d2) = some o →
    d1 = d2 ∧ n1 = n2

theorem declIdx_of_side {u u' : U} (h : Side u u') (d : Decl) : declIdx u' d = declIdx u d := by
  cases d
  · exact h.funcs
  · exact h.vars
  · exact h.consts

theorem declInj_of_side {u u' : U} (h : Side u u') (hi : DeclInj u) : DeclInj u' := by
  intro d1 d2 n1 n2 o h1 h2
  rw [declIdx_of_side h] at h1 h2
  exact hi d1 d2 n1 n2 o h1 h2

theorem decl_found (u : U) (d : Decl) (n : Name) (o : Nat) (h : AL.lookup n (declIdx u d) = some o) : (u.decl d n).1 = u := by
  cases d <;> (unfold U.decl; simp only [declIdx] at h; simp only [h])

/-- a declaration that is not registered yet: a new object, one new entry at the front of its own index -/
theorem decl_lists (u : U) (d : Decl) (n : Name) (hnone : AL.lookup n (declIdx u d) = none) :
    declIdx (u.decl d n).1 d = (n, u.objs.length) :: declIdx u d ∧ ∀ d', d' ≠ d → declIdx (u.decl d n).1 d' = declIdx u d' := by
  have hs := package_side u n.pkg
  have hpl : (u.package n.pkg).objs.length = u.objs.length := by rw [(package_objs u n.pkg).1]
  cases d <;> (
    unfold U.decl
    simp only [declIdx] at hnone
    simp only [hnone, U.newObj, declIdx]
    refine ⟨by rw [hpl]; first | rw [hs.funcs] | rw [hs.vars] | rw [hs.consts], fun d' hd' => ?_⟩
    cases d' <;> first
      | exact absurd rfl hd'
      | exact hs.funcs
      | exact hs.vars
      | exact hs.consts)

/-- the indices after `u.decl d n`: every entry is an old one, or the new one -/
theorem decl_idx_cases (u : U) (d : Decl) (n : Name) (d' : Decl) (n' : Name) (o : Nat)
    (h : AL.lookup n' (declIdx (u.decl d n).1 d') = some o) :
    AL.lookup n' (declIdx u d') = some o ∨ (d' = d ∧ n' = n ∧ o = u.objs.length) := by
  cases hl : AL.lookup n (declIdx u d) with
  | some x => rw [decl_found u d n x hl] at h; exact .inl h
  | none =>
    obtain ⟨h1, h2⟩ := decl_lists u d n hl
    by_cases hd : d' = d
    · subst hd
      rw [h1] at h
      by_cases hn : n = n'
      · subst hn
        rw [lookup_cons_self] at h
        exact .inr ⟨rfl, rfl, (Option.some.inj h).symm⟩
      · rw [lookup_cons_ne n' n _ _ hn] at h
        exact .inl h
    · rw [h2 d' hd] at h; exact .inl h

theorem decl_old_idx (u : U) (d : Decl) (n : Name) (d' : Decl) (n' : Name) (o : Nat)
    (h : AL.lookup n' (declIdx u d') = some o) : AL.lookup n' (declIdx (u.decl d n).1 d') = some o := by
  cases hl : AL.lookup n (declIdx u d) with
  | some x => rw [decl_found u d n x hl]; exact h
  | none =>
    obtain ⟨h1, h2⟩ := decl_lists u d n hl
    by_cases hd : d' = d
    · subst hd
      rw [h1]
      by_cases hn : n = n'
      · subst hn; rw [hl] at h; cases h
      · rw [lookup_cons_ne n' n _ _ hn]; exact h
    · rw [h2 d' hd]; exact h

theorem decl_declInj {bt : List Builtin} {u : U} (d : Decl) (n : Name) (hinv : Inv bt u) (hi : DeclInj u) : DeclInj (u.decl d n).1 := by
  intro d1 d2 n1 n2 o h1 h2
  have hlt : ∀ (dd : Decl) (nn : Name) (x : Nat), AL.lookup nn (declIdx u dd) = some x → x < u.objs.length := by
    intro dd nn x hx
    obtain ⟨ob, hob, _⟩ := hinv.declOK x (declIdx_sub u dd nn x hx)
    exact (List.getElem?_eq_some_iff.mp hob).1
  rcases decl_idx_cases u d n d1 n1 o h1 with a1 | ⟨ed1, en1, e1⟩ <;>
    rcases decl_idx_cases u d n d2 n2 o h2 with a2 | ⟨ed2, en2, e2⟩
  · exact hi d1 d2 n1 n2 o a1 a2
  · have := hlt d1 n1 o a1; omega
  · have := hlt d2 n2 o a2; omega
  · exact ⟨ed1.trans ed2.symm, en1.trans en2.symm⟩

theorem addDecl_declInj {bt : List Builtin} (F : Facts) (v2 : Bool) (fuel : Nat) (u : U) (d : Decl) (n : Name) (ty : Nat)
    (cv : Option Str) (u' : U) (hinv : Inv bt u) (hi : DeclInj u) (hf : addDecl bt F v2 fuel u d n ty cv = some u') : DeclInj u' := by
  unfold addDecl at hf
  cases hw : walk bt F v2 fuel ((u.decl d n).1.modify (u.decl d n).2 (fun ob => { ob with kind := .declarationOf })) ty none with
  | none => simp [hw] at hf
  | some p =>
    obtain ⟨u3, o3⟩ := p
    simp only [hw, Option.some.injEq] at hf
    subst hf
    have s3 := walk_side bt F v2 fuel _ _ _ _ _ hw
    exact declInj_of_side ((modify_side _ _ _).trans (s3.trans (modify_side _ _ _))) (decl_declInj d n hinv hi)

theorem addObj_declInj {bt : List Builtin} (F : Facts) (v2 : Bool) (fuel : Nat) (u : U) (ob : GObj) (u' : U)
    (hinv : Inv bt u) (hi : DeclInj u) (hf : addObj bt F v2 fuel u ob = some u') : DeclInj u' := by
  unfold addObj at hf
  cases hk : ob.kind with
  | typeName =>
    simp only [hk] at hf
    cases hw : walk bt F v2 fuel u ob.ty none with
    | none => simp [hw] at hf
    | some p =>
      simp only [hw, Option.map_some, Option.some.injEq] at hf
      subst hf
      exact declInj_of_side (walk_side bt F v2 fuel _ _ _ _ _ hw) hi
  | func => simp only [hk] at hf; exact addDecl_declInj F v2 fuel u _ _ _ _ u' hinv hi hf
  | var => simp only [hk] at hf; exact addDecl_declInj F v2 fuel u _ _ _ _ u' hinv hi hf
  | const => simp only [hk] at hf; exact addDecl_declInj F v2 fuel u _ _ _ _ u' hinv hi hf


theorem decl_keeps (u : U) (d : Decl) (n : Name) (o : Nat) (ob : Obj) (h : u.objs[o]? = some ob) :
    (u.decl d n).1.objs[o]? = some ob := by
  have hp := (package_objs u n.pkg).1
  cases d <;> (
    unfold U.decl
    simp only
    split
    · exact h
    · simp only [U.newObj]; rw [hp]; exact getElem?_append_old _ _ _ _ h)

theorem Recorded.of_step {F : Facts} {v2 : Bool} {u u' : U} {d : Decl} {n : Name} {ty : Nat} {cv : Option Str}
    (h : Recorded F v2 u d n ty cv) (hg : Grows u u')
    (hidx : ∀ o, AL.lookup n (declIdx u d) = some o → AL.lookup n (declIdx u' d) = some o)
    (hobj : ∀ o ob, AL.lookup n (declIdx u d) = some o → u.objs[o]? = some ob → u'.objs[o]? = some ob) :
    Recorded F v2 u' d n ty cv := by
  obtain ⟨o, ob, h1, h2, h3, h4, h5⟩ := h
  exact ⟨o, ob, hidx o h1, hobj o ob h1 h2, h3, h4.mono hg, h5⟩

/-- a walk leaves every recorded declaration recorded -/
theorem walk_keeps_recorded {bt : List Builtin} (F : Facts) (v2 : Bool) (hwf : WellFormed F v2) (fuel : Nat) (u u' : U) (g o' : Nat)
    (un : Option Name) (hi : Inv bt u) (hd : DInv F v2 u []) (hw : walk bt F v2 fuel u g un = some (u', o'))
    {d : Decl} {n : Name} {ty : Nat} {cv : Option Str} (h : Recorded F v2 u d n ty cv) : Recorded F v2 u' d n ty cv := by
  have p := walk_inv bt F v2 fuel u g un u' o' hi hw
  obtain ⟨_, fr, _, _⟩ := walk_desc bt F v2 hwf fuel u g un u' o' [] hi hd hw
  have s := walk_side bt F v2 fuel u g un u' o' hw
  obtain ⟨o, ob, h1, h2, h3, h4, h5⟩ := h
  exact ⟨o, ob, by rw [declIdx_of_side s]; exact h1, fr o ob h2 (by rw [h3]; decide), h3, h4.mono p.grows, h5⟩

/-- adding a declaration leaves every *other* recorded declaration recorded -/
theorem addDecl_keeps_recorded {bt : List Builtin} (F : Facts) (v2 : Bool) (hwf : WellFormed F v2) (fuel : Nat) (u : U)
    (d' : Decl) (n' : Name) (ty' : Nat) (cv' : Option Str) (u' : U) (h : Full bt F v2 u) (hinj : DeclInj u)
    (hf : addDecl bt F v2 fuel u d' n' ty' cv' = some u')
    {d : Decl} {n : Name} {ty : Nat} {cv : Option Str} (hne : ¬ (d' = d ∧ n' = n)) (hr : Recorded F v2 u d n ty cv) :
    Recorded F v2 u' d n ty cv := by
  have hgrow := (addDecl_inv F v2 fuel u d' n' ty' cv' u' h.1 hf).2
  unfold addDecl at hf
  obtain ⟨h1, g1, ob1, hob1, hk1⟩ := decl_inv (bt := bt) d' n' h.1
  have d1 := decl_dinv (F := F) (v2 := v2) (P := []) d' n' h.1 h.2
  have hinj1 := decl_declInj d' n' h.1 hinj
  have hsrc : ob1.src = none := by
    rcases decl_new u d' n' _ ob1 hob1 with hold | hnew
    · cases hsr : ob1.src with
      | none => rfl
      | some g =>
        rcases h.2.desc _ ob1 g hold hsr with hp | hd
        · cases hp
        · unfold Desc at hd
          cases hn : F.node g <;> simp only [hn] at hd <;> first
            | (have := hd.1; rw [hk1] at this; cases this)
            | (rw [hk1] at hd; cases hd)
            | exact hd.elim
    · exact hnew.2.1
  obtain ⟨h2, g2⟩ := modify_inv (o := (u.decl d' n').2) (f := fun ob => { ob with kind := .declarationOf })
    (fun ob' hob' => ⟨rfl, fun _ => by rw [hob1] at hob'; cases hob'; exact hk1.symm, fun r hr => .inl hr⟩) h1
  have d2 : DInv F v2 ((u.decl d' n').1.modify (u.decl d' n').2 (fun ob => { ob with kind := .declarationOf })) [] :=
    modify_nosrc_dinv g2 (fun ob' hob' => by rw [hob1] at hob'; cases hob'; exact ⟨by simp, hsrc⟩)
      (fun _ => ⟨rfl, rfl, rfl, fun hh => by cases hh⟩) d1
  cases hw : walk bt F v2 fuel ((u.decl d' n').1.modify (u.decl d' n').2 (fun ob => { ob with kind := .declarationOf })) ty' none with
  | none => simp [hw] at hf
  | some p =>
    obtain ⟨u3, o3⟩ := p
    simp only [hw, Option.some.injEq] at hf
    subst hf
    obtain ⟨_, fr3, _, _⟩ := walk_desc bt F v2 hwf fuel _ ty' none u3 o3 [] h2 d2 hw
    have s3 := walk_side bt F v2 fuel _ _ _ _ _ hw
    refine hr.of_step hgrow ?_ ?_
    · intro o ho
      show AL.lookup n (declIdx (u3.modify _ _) d) = some o
      rw [declIdx_of_side (modify_side u3 _ _), declIdx_of_side s3, declIdx_of_side (modify_side (u.decl d' n').1 _ _)]
      exact decl_old_idx u d' n' d n o ho
    · intro o ob ho hob
      -- the declaration object of `(d', n')` is another object
      have hne' : (u.decl d' n').2 ≠ o := by
        intro e
        have l1 := decl_idx u d' n'
        have l2 := decl_old_idx u d' n' d n o ho
        rw [e] at l1
        exact hne (hinj1 d' d n' n o l1 l2)
      have hk : ob.kind = .declarationOf := by
        obtain ⟨o0, ob0, a1, a2, a3, _, _⟩ := hr
        rw [ho] at a1; cases a1
        rw [hob] at a2; cases a2
        exact a3
      have e1 : (u.decl d' n').1.objs[o]? = some ob := decl_keeps u d' n' o ob hob
      have e2 : ((u.decl d' n').1.modify (u.decl d' n').2 (fun ob => { ob with kind := .declarationOf })).objs[o]? = some ob := by
        rw [modify_get_ne hne']; exact e1
      have e3 : u3.objs[o]? = some ob := fr3 o ob e2 (by rw [hk]; decide)
      show (u3.modify _ _).objs[o]? = some ob
      rw [modify_get_ne hne']; exact e3


/-- the index and name under which a scope object is recorded as a declaration (types are not declarations) -/
def declKey (v2 : Bool) (ob : GObj) : Option (Decl × Name) :=
  match ob.kind with
  | .typeName => none
  | .func => some (.func, funcNameOf v2 ob.str)
  | .var => some (.var, varNameOf v2 ob.str)
  | .const => some (.const, varNameOf v2 ob.str)

def declVal (ob : GObj) : Option Str := if ob.kind = .const then some ob.constVal else none

theorem addObj_records {bt : List Builtin} (F : Facts) (v2 : Bool) (hwf : WellFormed F v2) (fuel : Nat) (u : U) (ob : GObj) (u' : U)
    (h : Full bt F v2 u) (hf : addObj bt F v2 fuel u ob = some u') (d : Decl) (n : Name) (hk : declKey v2 ob = some (d, n)) :
    Recorded F v2 u' d n ob.ty (declVal ob) := by
  unfold addObj at hf
  unfold declKey at hk
  unfold declVal
  cases hkind : ob.kind with
  | typeName => simp [hkind] at hk
  | func =>
    simp only [hkind] at hf hk
    simp only [Option.some.injEq, Prod.mk.injEq] at hk
    obtain ⟨rfl, rfl⟩ := hk
    exact addDecl_records F v2 hwf fuel u _ _ _ _ u' h hf
  | var =>
    simp only [hkind] at hf hk
    simp only [Option.some.injEq, Prod.mk.injEq] at hk
    obtain ⟨rfl, rfl⟩ := hk
    exact addDecl_records F v2 hwf fuel u _ _ _ _ u' h hf
  | const =>
    simp only [hkind] at hf hk
    simp only [Option.some.injEq, Prod.mk.injEq] at hk
    obtain ⟨rfl, rfl⟩ := hk
    exact addDecl_records F v2 hwf fuel u _ _ _ _ u' h hf

theorem addObj_keeps_recorded {bt : List Builtin} (F : Facts) (v2 : Bool) (hwf : WellFormed F v2) (fuel : Nat) (u : U) (ob : GObj) (u' : U)
    (h : Full bt F v2 u) (hinj : DeclInj u) (hf : addObj bt F v2 fuel u ob = some u')
    {d : Decl} {n : Name} {ty : Nat} {cv : Option Str} (hne : declKey v2 ob ≠ some (d, n)) (hr : Recorded F v2 u d n ty cv) :
    Recorded F v2 u' d n ty cv := by
  unfold addObj at hf
  unfold declKey at hne
  cases hkind : ob.kind with
  | typeName =>
    simp only [hkind] at hf
    cases hw : walk bt F v2 fuel u ob.ty none with
    | none => simp [hw] at hf
    | some p =>
      simp only [hw, Option.map_some, Option.some.injEq] at hf
      subst hf
      exact walk_keeps_recorded F v2 hwf fuel u p.1 ob.ty p.2 none h.1 h.2 hw hr
  | func =>
    simp only [hkind] at hf hne
    exact addDecl_keeps_recorded F v2 hwf fuel u _ _ _ _ u' h hinj hf (fun e => hne (by rw [e.1, e.2])) hr
  | var =>
    simp only [hkind] at hf hne
    exact addDecl_keeps_recorded F v2 hwf fuel u _ _ _ _ u' h hinj hf (fun e => hne (by rw [e.1, e.2])) hr
  | const =>
    simp only [hkind] at hf hne
    exact addDecl_keeps_recorded F v2 hwf fuel u _ _ _ _ u' h hinj hf (fun e => hne (by rw [e.1, e.2])) hr

theorem addObjs_keeps_recorded {bt : List Builtin} (F : Facts) (v2 : Bool) (hwf : WellFormed F v2) (fuel : Nat) :
    ∀ (obs : List GObj) (u u' : U), Full bt F v2 u → DeclInj u → addObjs bt F v2 fuel u obs = some u' →
    ∀ {d : Decl} {n : Name} {ty : Nat} {cv : Option Str}, (∀ ob ∈ obs, declKey v2 ob ≠ some (d, n)) →
      Recorded F v2 u d n ty cv → Recorded F v2 u' d n ty cv := by
  intro obs
  induction obs with
  | nil => intro u u' _ _ hf d n ty cv _ hr; simp only [addObjs, Option.some.injEq] at hf; subst hf; exact hr
  | cons x rest ih =>
    intro u u' h hinj hf d n ty cv hne hr
    simp only [addObjs] at hf
    cases ha : addObj bt F v2 fuel u x with
    | none => simp [ha] at hf
    | some u1 =>
      simp only [ha] at hf
      exact ih u1 u' (addObj_full F v2 hwf fuel u x u1 h ha) (addObj_declInj F v2 fuel u x u1 h.1 hinj ha) hf
        (fun ob hob => hne ob (List.mem_cons_of_mem _ hob))
        (addObj_keeps_recorded F v2 hwf fuel u x u1 h hinj ha (hne x List.mem_cons_self) hr)

/-- **scan_records_every_declaration**: after the objects of a package scope have been added – function, variable and
constant names being distinct, as in any Go package – every one of them is recorded: registered under its name in its
index as a `DeclarationOf` object over the object of its Go type, a constant with its value -/
theorem addObjs_records {bt : List Builtin} (F : Facts) (v2 : Bool) (hwf : WellFormed F v2) (fuel : Nat) :
    ∀ (obs : List GObj) (u u' : U), Full bt F v2 u → DeclInj u → (obs.filterMap (declKey v2)).Nodup →
    addObjs bt F v2 fuel u obs = some u' →
    ∀ ob ∈ obs, ∀ (d : Decl) (n : Name), declKey v2 ob = some (d, n) → Recorded F v2 u' d n ob.ty (declVal ob) := by
  intro obs
  induction obs with
  | nil => intro u u' _ _ _ _ ob hob; cases hob
  | cons x rest ih =>
    intro u u' h hinj hnd hf ob hob d n hk
    simp only [addObjs] at hf
    cases ha : addObj bt F v2 fuel u x with
    | none => simp [ha] at hf
    | some u1 =>
      simp only [ha] at hf
      have h1 := addObj_full F v2 hwf fuel u x u1 h ha
      have hinj1 := addObj_declInj F v2 fuel u x u1 h.1 hinj ha
      have hnd' : (rest.filterMap (declKey v2)).Nodup ∧ (∀ k, declKey v2 x = some k → k ∉ rest.filterMap (declKey v2)) := by
        cases hx : declKey v2 x with
        | none => simp only [List.filterMap_cons, hx] at hnd; exact ⟨hnd, fun k hk => by cases hk⟩
        | some k0 =>
          simp only [List.filterMap_cons, hx, List.nodup_cons] at hnd
          exact ⟨hnd.2, fun k hk => by cases hk; exact hnd.1⟩
      rcases List.mem_cons.mp hob with rfl | hrest
      · have hr := addObj_records F v2 hwf fuel u ob u1 h ha d n hk
        refine addObjs_keeps_recorded F v2 hwf fuel rest u1 u' h1 hinj1 hf (fun y hy e => ?_) hr
        exact hnd'.2 (d, n) hk (List.mem_filterMap.mpr ⟨y, hy, e⟩)
      · exact ih u1 u' h1 hinj1 hnd'.1 hf ob hrest d n hk

theorem declInj_empty : DeclInj {} := by
  intro d1 d2 n1 n2 o h1 _
  cases d1 <;> simp [declIdx, AL.lookup] at h1


theorem Recorded.same {F : Facts} {v2 : Bool} {u u' : U} {d : Decl} {n : Name} {ty : Nat} {cv : Option Str}
    (ho : u'.objs = u.objs) (ht : u'.types = u.types) (hf : u'.funcs = u.funcs) (hv : u'.vars = u.vars) (hc : u'.consts = u.consts)
    (h : Recorded F v2 u d n ty cv) : Recorded F v2 u' d n ty cv := by
  have hg : Grows u u' := ⟨fun o ob hob => ⟨ob, by rw [ho]; exact hob, rfl, fun _ => rfl⟩, fun n o hl => by rw [ht]; exact hl⟩
  refine h.of_step hg (fun o ho' => ?_) (fun o ob _ hob => by rw [ho]; exact hob)
  cases d
  · show AL.lookup n u'.funcs = some o; rw [hf]; exact ho'
  · show AL.lookup n u'.vars = some o; rw [hv]; exact ho'
  · show AL.lookup n u'.consts = some o; rw [hc]; exact ho'

theorem package_decls (u : U) (p : Str) : (u.package p).funcs = u.funcs ∧ (u.package p).vars = u.vars ∧ (u.package p).consts = u.consts :=
  ⟨(package_side u p).funcs, (package_side u p).vars, (package_side u p).consts⟩

theorem addImports_decls (u : U) (p : Str) (imps : List Str) :
    (u.addImports p imps).funcs = u.funcs ∧ (u.addImports p imps).vars = u.vars ∧ (u.addImports p imps).consts = u.consts := by
  unfold U.addImports
  have key : ∀ (l : List Str) (x : U), (l.foldl (fun u i => u.package i) x).funcs = x.funcs ∧
      (l.foldl (fun u i => u.package i) x).vars = x.vars ∧ (l.foldl (fun u i => u.package i) x).consts = x.consts := by
    intro l
    induction l with
    | nil => intro x; exact ⟨rfl, rfl, rfl⟩
    | cons i rest ih =>
      intro x
      simp only [List.foldl_cons]
      obtain ⟨a, b, c⟩ := ih (x.package i)
      obtain ⟨a', b', c'⟩ := package_decls x i
      exact ⟨a.trans a', b.trans b', c.trans c'⟩
  obtain ⟨a, b, c⟩ := key imps (u.package p)
  obtain ⟨a', b', c'⟩ := package_decls u p
  exact ⟨a.trans a', b.trans b', c.trans c'⟩

theorem declInj_of_idx {u u' : U} (h : ∀ d, declIdx u' d = declIdx u d) (hi : DeclInj u) : DeclInj u' := by
  intro d1 d2 n1 n2 o h1 h2
  rw [h] at h1 h2
  exact hi d1 d2 n1 n2 o h1 h2

/-- **requested_package_declarations_complete** (v1 `findTypesIn`): after the scan of a package every function, variable and
constant of its scope is recorded -/
theorem scanPkg_records_decls {bt : List Builtin} (F : Facts) (v2 : Bool) (hwf : WellFormed F v2) (fuel : Nat) (u : U) (p : GPkg) (u' : U)
    (h : Full bt F v2 u) (hinj : DeclInj u) (hnd : (p.scope.filterMap (declKey v2)).Nodup)
    (hf : scanPkg bt F v2 fuel u p = some u') :
    ∀ ob ∈ p.scope, ∀ (d : Decl) (n : Name), declKey v2 ob = some (d, n) → Recorded F v2 u' d n ob.ty (declVal ob) := by
  intro ob hob d n hk
  unfold scanPkg at hf
  obtain ⟨a, b, c, dd⟩ := package_objs u p.path
  have h1 := full_of_same (u' := (u.package p.path).setPkg p.path (fun r => { r with name := p.name })) a b c dd h
  obtain ⟨pf, pv, pc⟩ := package_decls u p.path
  have hinj1 : DeclInj ((u.package p.path).setPkg p.path (fun r => { r with name := p.name })) :=
    declInj_of_idx (u := u) (fun d => by cases d; exact pf; exact pv; exact pc) hinj
  cases ha : addObjs bt F v2 fuel ((u.package p.path).setPkg p.path (fun r => { r with name := p.name })) p.scope with
  | none => simp [ha] at hf
  | some u2 =>
    simp only [ha, Option.some.injEq] at hf
    subst hf
    have hr := addObjs_records F v2 hwf fuel p.scope _ u2 h1 hinj1 hnd ha ob hob d n hk
    obtain ⟨a', b', _, _⟩ := addImports_same u2 p.path (p.imports.mergeSort Str.le)
    obtain ⟨f', v', c'⟩ := addImports_decls u2 p.path (p.imports.mergeSort Str.le)
    exact hr.same a' b' f' v' c'


/-! ## the package record in v2, where the scan is interleaved with the visits of the imports -/
open Gengo.Loader

/-- the universe has a record for `path` that carries the name `nm` -/
def RecName (u : U) (path nm : Str) : Prop := ∃ r ∈ u.pkgs, r.path = path ∧ r.name = nm

theorem RecName.of_kept {u u' : U} {path nm : Str} (h : RecName u path nm) (hk : PkgsKept u u') : RecName u' path nm := by
  obtain ⟨r, hr, h1, h2⟩ := h
  exact ⟨r, hk r hr, h1, h2⟩

theorem package_kept (u : U) (p : Str) : PkgsKept u (u.package p) := (package_side u p).pkgs

/-- `setPkg` keeps paths; the record of `path` is only touched when `q = path`, and then gets (or keeps) the name -/
theorem RecName.setPkg {u : U} {path nm : Str} (h : RecName u path nm) (q : Str) (f : PkgRec → PkgRec)
    (hp : ∀ r : PkgRec, (f r).path = r.path)
    (hn : q = path → ∀ r : PkgRec, (f r).name = nm ∨ (f r).name = r.name) : RecName (u.setPkg q f) path nm := by
  obtain ⟨r, hr, h1, h2⟩ := h
  by_cases hq : r.path = q
  · refine ⟨f r, ?_, (hp r).trans h1, ?_⟩
    · simp only [U.setPkg, List.mem_map]
      exact ⟨r, hr, by simp [hq]⟩
    · rcases hn (hq.symm.trans h1) r with e | e
      · exact e
      · exact e.trans h2
  · refine ⟨r, ?_, h1, h2⟩
    simp only [U.setPkg, List.mem_map]
    exact ⟨r, hr, by simp [hq]⟩

theorem RecName.addImports {u : U} {path nm : Str} (h : RecName u path nm) (q : Str) (imps : List Str) :
    RecName (u.addImports q imps) path nm := by
  unfold U.addImports
  have h1 := h.of_kept (package_kept u q)
  have h2 := h1.of_kept (foldl_package_kept imps (u.package q))
  exact h2.setPkg q _ (fun _ => rfl) (fun _ _ => .inr rfl)

theorem find_path {w : World} {path : Str} {p : GPkg} (h : w.find path = some p) : p.path = path := by
  have := List.find?_some h
  simpa using this

theorem addObjs_recName {bt : List Builtin} (F : Facts) (v2 : Bool) (fuel : Nat) (obs : List GObj) (u u' : U) {path nm : Str}
    (h : RecName u path nm) (hf : addObjs bt F v2 fuel u obs = some u') : RecName u' path nm :=
  h.of_kept (addObjs_pkgsKept F v2 fuel obs u u' hf)

/-- a visit keeps the name of every record whose package the world names consistently -/
theorem visitV2_keeps_recName (w : World) (q nm : Str) (hq : ∀ p', w.find q = some p' → p'.name = nm) :
    ∀ (n : Nat) (st st' : LState) (path : Str), RecName st.u q nm → visitV2 w n st path = some st' → RecName st'.u q nm := by
  intro n
  induction n with
  | zero => intro st st' path _ h; simp [visitV2] at h
  | succ n ih =>
    intro st st' path hr h
    simp only [visitV2] at h
    split at h
    · cases h; exact hr
    · cases hf : w.find path with
      | none => simp [hf] at h
      | some p =>
        simp only [hf] at h
        have h1 := hr.of_kept (package_kept st.u path)
        split at h
        · cases h; exact h1
        · have h2 := h1.of_kept (package_kept (st.u.package path) p.path)
          have h3 : RecName (((st.u.package path).package p.path).setPkg p.path (fun r => { r with name := p.name })) q nm :=
            h2.setPkg p.path _ (fun _ => rfl) (fun e r => by
              left
              have hp := find_path hf
              have : w.find q = some p := by rw [← e, hp]; exact hf
              exact hq p this)
          cases ha : addObjs w.bt w.facts w.v2 w.fuel (((st.u.package path).package p.path).setPkg p.path (fun r => { r with name := p.name })) p.scope with
          | none => simp [ha] at h
          | some u3 =>
            simp only [ha] at h
            have h4 := addObjs_recName w.facts w.v2 w.fuel p.scope _ u3 h3 ha
            generalize hst3 : ({ u := u3, requested := st.requested, processed := st.processed ++ [path] } : LState) = st3 at h
            cases hfold : p.imports.foldl (fun acc i => acc.bind (fun s => visitV2 w n s i)) (some st3) with
            | none => simp [hfold] at h
            | some st4 =>
              simp only [hfold, Option.some.injEq] at h
              subst h
              have h5 := foldl_bind_inv (fun s i => visitV2 w n s i) (fun s => RecName s.u q nm)
                (fun s i s' hs hv => ih s s' i hs hv) p.imports st3 st4 (by subst hst3; exact h4) hfold
              exact h5.addImports p.path _

/-- **package_recorded_v2**: when `addPkgToUniverse` visits a requested package that has not been processed yet, the
universe afterwards holds a record with the package's path, its name and its direct imports -/
theorem visitV2_records (w : World) (n : Nat) (st st' : LState) (path : Str) (p : GPkg)
    (hfind : w.find path = some p) (hnp : st.processed.contains path = false) (hreq : st.requested.contains path = true)
    (h : visitV2 w (n + 1) st path = some st') :
    ∃ r ∈ st'.u.pkgs, r.path = p.path ∧ r.name = p.name ∧ ∀ i ∈ p.imports, i ∈ r.imports := by
  have hpp := find_path hfind
  have hq : ∀ p', w.find p.path = some p' → p'.name = p.name := by
    intro p' hp'
    rw [hpp, hfind] at hp'; cases hp'; rfl
  simp only [visitV2, hnp, Bool.false_eq_true, if_false, hfind, hreq, Bool.not_true] at h
  obtain ⟨r0, hr0, hp0⟩ := package_has (st.u.package path) p.path
  have h3 : RecName (((st.u.package path).package p.path).setPkg p.path (fun r => { r with name := p.name })) p.path p.name := by
    refine ⟨{ r0 with name := p.name }, ?_, hp0, rfl⟩
    simp only [U.setPkg, List.mem_map]
    exact ⟨r0, hr0, by simp [hp0]⟩
  cases ha : addObjs w.bt w.facts w.v2 w.fuel (((st.u.package path).package p.path).setPkg p.path (fun r => { r with name := p.name })) p.scope with
  | none => simp [ha] at h
  | some u3 =>
    simp only [ha] at h
    have h4 := addObjs_recName w.facts w.v2 w.fuel p.scope _ u3 h3 ha
    generalize hst3 : ({ u := u3, requested := st.requested, processed := st.processed ++ [path] } : LState) = st3 at h
    cases hfold : p.imports.foldl (fun acc i => acc.bind (fun s => visitV2 w n s i)) (some st3) with
    | none => simp [hfold] at h
    | some st4 =>
      simp only [hfold, Option.some.injEq] at h
      subst h
      have h5 := foldl_bind_inv (fun s i => visitV2 w n s i) (fun s => RecName s.u p.path p.name)
        (fun s i s' hs hv => visitV2_keeps_recName w p.path p.name hq n s s' i hs hv) p.imports st3 st4 (by subst hst3; exact h4) hfold
      -- `addImports` puts the (sorted) imports into the record
      obtain ⟨r, hr, e1, e2⟩ := h5
      unfold U.addImports
      have k1 := package_kept st4.u p.path r hr
      have k2 := foldl_package_kept (p.imports.mergeSort Str.le) _ r k1
      refine ⟨{ r with imports := (p.imports.mergeSort Str.le).foldl (fun acc i => if acc.contains i then acc else acc ++ [i]) r.imports }, ?_, e1, e2, ?_⟩
      · simp only [U.setPkg, List.mem_map]
        exact ⟨r, k2, by simp [e1]⟩
      · intro i hi
        exact mem_foldl_add _ _ _ (.inr ((List.mergeSort_perm p.imports _).symm.subset hi))

end Gengo.WalkSide

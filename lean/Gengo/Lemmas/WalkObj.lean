import Gengo.Lemmas.WalkIso
/-!
# Object-level invariants of the universe, generically (C01, C20)

Many facts about the universe are facts about every single object: "an object of kind Builtin comes from the builtins
table", "an object that was filled from a node has one of the kinds `walkType` gives", ….  This file threads an
arbitrary predicate `J` on objects through `walkType`, the declaration and package scans and both loaders once and for
all: `J` holds of every object of every universe the loaders build as soon as it holds of the four kinds of fresh
objects and is kept by the handful of updates the model ever applies to an object (`ObjOK`).
-/
namespace Gengo.WalkObj
open Gengo Gengo.Universe Gengo.WalkInv Gengo.WalkName

/-- the kinds `walkType` marks an object with when it fills it from an unnamed type node -/
def FillKind (K : Kind) : Prop :=
  K = .pointer ∨ K = .slice ∨ K = .array ∨ K = .chan ∨ K = .map ∨ K = .struct ∨ K = .func ∨ K = .iface ∨ K = .unsupported

theorem shape_fillKind (v2 : Bool) (gn : GNode) (K : Kind) (kids : List (Nat × Option Name × Setter))
    (h : shape v2 gn = some (K, kids)) : FillKind K := by
  unfold FillKind
  cases gn <;> simp only [shape, Option.some.injEq, Prod.mk.injEq, reduceCtorEq] at h <;>
    (obtain ⟨rfl, _⟩ := h; simp)

/-- `J` holds of fresh objects and is kept by every update the model applies to an object -/
structure ObjOK (bt : List Builtin) (J : Obj → Prop) : Prop where
  fresh : ∀ n : Name, J { name := n }
  builtin : ∀ b ∈ bt, J { name := ⟨[], b.name⟩, kind := b.kind }
  tparam : ∀ (n : Name) (g : Nat), J { name := n, kind := .typeParam, src := some g }
  decl : ∀ n : Name, J { name := n, kind := .declarationOf }
  setter : ∀ (set : Setter) (ob : Obj) (x : Nat), J ob → J (set.apply ob x)
  mark : ∀ (gn : GNode) (ob : Obj) (K : Kind) (g : Nat), ob.kind = .unknown → FillKind K → J ob →
    J (markFields gn { ob with kind := K, src := some g })
  markAlias : ∀ (ob : Obj) (g : Nat), ob.kind = .unknown → J ob → J { ob with kind := .alias, src := some g }
  clearTp : ∀ ob : Obj, J ob → J { ob with tparams := [] }
  setGhost : ∀ (ob : Obj) (g : Nat) (b : Bool), ob.kind ≠ .unknown → J ob → J { ob with nsrc := some g, nskip := b }
  declUnder : ∀ (ob : Obj) (o : Nat) (cv : Option Str), ob.kind = .declarationOf → J ob →
    J { ob with under := some o, constVal := if cv.isSome = true then cv else ob.constVal }

def AllJ (J : Obj → Prop) (u : U) : Prop := ∀ (o : Nat) (ob : Obj), u.objs[o]? = some ob → J ob

theorem same_allJ {J : Obj → Prop} {u u' : U} (ho : u'.objs = u.objs) (h : AllJ J u) : AllJ J u' := by
  intro o ob hob; rw [ho] at hob; exact h o ob hob

theorem newObj_allJ {J : Obj → Prop} {u : U} (ob0 : Obj) (h0 : J ob0) (h : AllJ J u) : AllJ J (u.newObj ob0).1 := by
  intro o ob hob
  have hob' : (u.objs ++ [ob0])[o]? = some ob := hob
  rcases getElem?_append_new _ _ _ _ hob' with hold | ⟨_, rfl⟩
  · exact h o ob hold
  · exact h0

theorem modify_allJ {J : Obj → Prop} {u : U} {o : Nat} {f : Obj → Obj} (hf : ∀ ob : Obj, u.objs[o]? = some ob → J ob → J (f ob))
    (h : AllJ J u) : AllJ J (u.modify o f) := by
  intro x ob hob
  by_cases hox : o = x
  · subst hox
    cases h0 : u.objs[o]? with
    | none =>
      have : (u.modify o f).objs[o]? = none := by simp [U.modify, h0]
      rw [this] at hob; cases hob
    | some ob0 =>
      rw [modify_get_eq h0] at hob; cases hob
      exact hf ob0 h0 (h o ob0 h0)
  · rw [modify_get_ne hox] at hob; exact h x ob hob

theorem type_allJ {bt : List Builtin} {J : Obj → Prop} (k : ObjOK bt J) {u : U} (n : Name) (h : AllJ J u) : AllJ J (U.type bt u n).1 := by
  unfold U.type
  cases hl : AL.lookup n u.types with
  | some o => exact h
  | none =>
    simp only
    have hp : AllJ J (u.package n.pkg) := same_allJ (package_objs u n.pkg).1 h
    cases hb : (if n.pkg.isEmpty = true then bt.find? (fun b => b.key = n.name) else none) with
    | none =>
      simp only
      exact same_allJ (u := ((u.package n.pkg).newObj { name := n }).1) rfl (newObj_allJ _ (k.fresh n) hp)
    | some b =>
      simp only
      have hbm : b ∈ bt := by
        by_cases he : n.pkg.isEmpty = true
        · simp only [he, if_true] at hb; exact List.mem_of_find?_eq_some hb
        · simp [he] at hb
      cases hbo : AL.lookup b.var (u.package n.pkg).builtinObjs with
      | some o => simp only; exact same_allJ (u := u.package n.pkg) rfl hp
      | none =>
        simp only
        exact same_allJ (u := ((u.package n.pkg).newObj { name := ⟨[], b.name⟩, kind := b.kind }).1) rfl
          (newObj_allJ _ (k.builtin b hbm) hp)

def WalkJOK (bt : List Builtin) (J : Obj → Prop) (w : U → Nat → Option Name → Option (U × Nat)) : Prop :=
  ∀ u c un u' oc, Inv bt u → AllJ J u → w u c un = some (u', oc) → AllJ J u'

theorem runKids_allJ {bt : List Builtin} {J : Obj → Prop} (k : ObjOK bt J) {w : U → Nat → Option Name → Option (U × Nat)}
    (hw : WalkOK bt w) (hj : WalkJOK bt J w) (o : Nat) :
    ∀ (kids : List (Nat × Option Name × Setter)) (u u' : U), Inv bt u → AllJ J u → runKids w o u kids = some u' → AllJ J u' := by
  intro kids
  induction kids with
  | nil => intro u u' _ h hr; simp only [runKids, Option.some.injEq] at hr; subst hr; exact h
  | cons kd ks ih =>
    intro u u' hi h hr
    obtain ⟨c, un, set⟩ := kd
    simp only [runKids] at hr
    cases hwc : w u c un with
    | none => simp [hwc] at hr
    | some p =>
      obtain ⟨u1, oc⟩ := p
      simp only [hwc] at hr
      have p1 := hw u c un u1 oc hi hwc
      have j1 := hj u c un u1 oc hi h hwc
      obtain ⟨h2, _⟩ := modify_inv (o := o) (setter_goodUpdate u1 o set oc p1.good) p1.inv
      exact ih _ _ h2 (modify_allJ (fun ob _ hj' => k.setter set ob oc hj') j1) hr

theorem fill_allJ {bt : List Builtin} {J : Obj → Prop} (k : ObjOK bt J) {w : U → Nat → Option Name → Option (U × Nat)}
    (hw : WalkOK bt w) (hj : WalkJOK bt J w) (u : U) (n : Name) (g : Nat) (gn : GNode) (K : Kind) (hK : FillKind K)
    (kids : List (Nat × Option Name × Setter)) (u' : U) (o : Nat) (hi : Inv bt u) (h : AllJ J u)
    (hf : fill bt w u n g gn K kids = some (u', o)) : AllJ J u' := by
  unfold fill at hf
  obtain ⟨h1, _, l1⟩ := type_inv (bt := bt) n hi
  have j1 := type_allJ k n h
  obtain ⟨ob1, hob1, _⟩ := h1.nameOK n _ l1
  by_cases hkn : (U.type bt u n).1.kind (U.type bt u n).2 ≠ .unknown
  · simp only [hkn, ne_eq, not_false_eq_true, if_true, Option.some.injEq] at hf
    have e1 : (U.type bt u n).1 = u' := by rw [hf]
    rw [← e1]; exact j1
  · simp only [hkn, if_false] at hf
    have hunk : (U.type bt u n).1.kind (U.type bt u n).2 = .unknown := by simpa using hkn
    have hunk1 : ob1.kind = .unknown := by rw [kind_of_obj hob1] at hunk; exact hunk
    obtain ⟨h2, _⟩ := modify_inv (o := (U.type bt u n).2)
      (mark_goodUpdate _ _ (fun ob => markFields gn { ob with kind := K, src := some g }) hunk
        (fun ob => ⟨(markFields_meta gn _).1, (markFields_meta gn _).2.2⟩)) h1
    have j2 : AllJ J ((U.type bt u n).1.modify (U.type bt u n).2 (fun ob => markFields gn { ob with kind := K, src := some g })) :=
      modify_allJ (fun ob hob hj' => by rw [hob1] at hob; cases hob; exact k.mark gn ob1 K g hunk1 hK hj') j1
    cases hr : runKids w (U.type bt u n).2 ((U.type bt u n).1.modify (U.type bt u n).2 (fun ob => markFields gn { ob with kind := K, src := some g })) kids with
    | none => simp [hr] at hf
    | some u3 =>
      simp only [hr, Option.some.injEq, Prod.mk.injEq] at hf
      obtain ⟨rfl, rfl⟩ := hf
      exact runKids_allJ k hw hj _ kids _ _ h2 j2 hr

theorem addMethods_allJ {bt : List Builtin} {J : Obj → Prop} (k : ObjOK bt J) {w : U → Nat → Option Name → Option (U × Nat)}
    (hw : WalkOK bt w) (hj : WalkJOK bt J w) (v2 : Bool) (u : U) (o : Nat) (ms : List GMethod) {g : Nat} (u' : U) (o' : Nat)
    (hi : Inv bt u) (h : AllJ J u) (hkn : Known u o) (hf : addMethods v2 w u o ms g = some (u', o')) : AllJ J u' := by
  obtain ⟨ob0, hob0, hk0⟩ := hkn
  unfold addMethods at hf
  split at hf
  · obtain ⟨h1, _⟩ := modify_inv (o := o) (ghost_goodUpdate u o g false) hi
    have s1 : AllJ J (u.modify o (fun ob => { ob with nsrc := some g, nskip := false })) :=
      modify_allJ (fun ob hob hj' => by rw [hob0] at hob; cases hob; exact k.setGhost ob0 g false hk0 hj') h
    cases hr : runKids w o (u.modify o (fun ob => { ob with nsrc := some g, nskip := false })) (methodKids v2 ms) with
    | none => simp [hr] at hf
    | some u3 =>
      simp only [hr, Option.some.injEq, Prod.mk.injEq] at hf
      obtain ⟨rfl, rfl⟩ := hf
      exact runKids_allJ k hw hj o _ _ _ h1 s1 hr
  · simp only [Option.some.injEq, Prod.mk.injEq] at hf
    obtain ⟨rfl, rfl⟩ := hf
    exact modify_allJ (fun ob hob hj' => by rw [hob0] at hob; cases hob; exact k.setGhost ob0 g true hk0 hj') h

/-- **walk_keeps_object_invariants** -/
theorem walk_allJ (bt : List Builtin) (F : Facts) (v2 : Bool) (J : Obj → Prop) (k : ObjOK bt J) :
    ∀ fuel, WalkJOK bt J (fun u c un => walk bt F v2 fuel u c un) := by
  intro fuel
  induction fuel with
  | zero => intro u c un u' oc _ _ hw; simp [walk] at hw
  | succ fuel ih =>
    intro u g useName u' o hi hs hw
    have ihw := walk_inv bt F v2 fuel
    cases hn : F.node g with
    | alias tgt => simp only [walk, hn] at hw; exact ih u tgt none u' o hi hs hw
    | basic nm =>
      simp only [walk, hn] at hw
      exact fill_allJ k ihw ih u ⟨[], nm⟩ g (.basic nm) .unsupported (by simp [FillKind]) [] u' o hi hs hw
    | tparam c =>
      simp only [walk, hn, Option.some.injEq] at hw
      have e : (u.newObj { name := useName.getD (nameOf v2 (F.str g)), kind := .typeParam, src := some g }).1 = u' := by rw [hw]
      rw [← e]
      exact newObj_allJ _ (k.tparam _ _) hs
    | named und ms tps ou =>
      simp only [walk, hn] at hw
      by_cases ha : isAliasUnder (F.node und) = true
      · simp only [ha, if_true] at hw
        obtain ⟨h1, _, l1⟩ := type_inv (bt := bt) (nameOf v2 (F.str g)) hi
        have s1 := type_allJ k (nameOf v2 (F.str g)) hs
        obtain ⟨ob1, hob1, _⟩ := h1.nameOK _ _ l1
        by_cases hk : (U.type bt u (nameOf v2 (F.str g))).1.kind (U.type bt u (nameOf v2 (F.str g))).2 ≠ .unknown
        · simp only [hk, ne_eq, not_false_eq_true, if_true, Option.some.injEq] at hw
          have e1 : (U.type bt u (nameOf v2 (F.str g))).1 = u' := by rw [hw]
          rw [← e1]; exact s1
        · simp only [hk, if_false] at hw
          have hunk : (U.type bt u (nameOf v2 (F.str g))).1.kind (U.type bt u (nameOf v2 (F.str g))).2 = .unknown := by simpa using hk
          have hunk1 : ob1.kind = .unknown := by rw [kind_of_obj hob1] at hunk; exact hunk
          obtain ⟨h2, _⟩ := modify_inv (o := (U.type bt u (nameOf v2 (F.str g))).2)
            (mark_goodUpdate _ _ (fun ob => { ob with kind := .alias, src := some g }) hunk (fun ob => ⟨rfl, rfl⟩)) h1
          have s2 : AllJ J ((U.type bt u (nameOf v2 (F.str g))).1.modify (U.type bt u (nameOf v2 (F.str g))).2 (fun ob => { ob with kind := .alias, src := some g })) :=
            modify_allJ (fun ob hob hj' => by rw [hob1] at hob; cases hob; exact k.markAlias ob1 g hunk1 hj') s1
          cases hr : runKids (fun u c un => walk bt F v2 fuel u c un) (U.type bt u (nameOf v2 (F.str g))).2
              ((U.type bt u (nameOf v2 (F.str g))).1.modify (U.type bt u (nameOf v2 (F.str g))).2 (fun ob => { ob with kind := .alias, src := some g }))
              [(und, none, .under)] with
          | none => simp [hr] at hw
          | some u3 =>
            simp only [hr] at hw
            obtain ⟨h3, _⟩ := runKids_inv ihw _ _ _ _ h2 hr
            have s3 := runKids_allJ k ihw ih _ _ _ _ h2 s2 hr
            have hkn2 : Known ((U.type bt u (nameOf v2 (F.str g))).1.modify (U.type bt u (nameOf v2 (F.str g))).2 (fun ob => { ob with kind := .alias, src := some g }))
                (U.type bt u (nameOf v2 (F.str g))).2 := ⟨_, modify_get_eq hob1, by simp⟩
            obtain ⟨_, g3⟩ := runKids_inv ihw _ _ _ _ h2 hr
            exact addMethods_allJ k ihw ih v2 u3 _ ms u' o h3 s3 (hkn2.mono g3) hw
      · simp only [ha, Bool.false_eq_true, if_false] at hw
        by_cases hsi : (v2 && isStructOrIface (F.node und)) = true
        · simp only [hsi, if_true] at hw
          cases hr0 : runKids (fun u c un => walk bt F v2 fuel u c un) 0 u (tps.map (fun tp => (tp.2, none, Setter.drop))) with
          | none => simp [hr0] at hw
          | some u1 =>
            simp only [hr0] at hw
            obtain ⟨h1, _⟩ := runKids_inv ihw 0 _ _ _ hi hr0
            have s1 := runKids_allJ k ihw ih 0 _ _ _ hi hs hr0
            generalize hnm : (if tps.isEmpty = true then nameOf v2 (F.str g) else genericName (nameOf v2 (F.str g)) tps) = n' at hw
            obtain ⟨h2, _, _⟩ := type_inv (bt := bt) n' h1
            have s2 := type_allJ k n' s1
            by_cases hk : (U.type bt u1 n').1.kind (U.type bt u1 n').2 ≠ .unknown
            · simp only [hk, ne_eq, not_false_eq_true, if_true, Option.some.injEq] at hw
              have e1 : (U.type bt u1 n').1 = u' := by rw [hw]
              rw [← e1]; exact s2
            · simp only [hk, if_false] at hw
              cases hw2 : walk bt F v2 fuel (U.type bt u1 n').1 ou (some n') with
              | none => simp [hw2] at hw
              | some p =>
                obtain ⟨u3, o3⟩ := p
                simp only [hw2] at hw
                have p3 := ihw _ _ _ _ _ h2 hw2
                have s3 := ih _ ou (some n') u3 o3 h2 s2 hw2
                obtain ⟨h4, _⟩ := modify_inv (o := o3) (f := fun ob => { ob with tparams := [] })
                  (fun ob _ => ⟨rfl, fun _ => rfl, fun r hr => .inl (by
                    simp only [refs, List.map_nil, List.append_nil, List.mem_append] at hr ⊢
                    exact .inl hr)⟩) p3.inv
                have s4 : AllJ J (u3.modify o3 (fun ob => { ob with tparams := [] })) :=
                  modify_allJ (fun ob _ hj' => k.clearTp ob hj') s3
                cases hr5 : runKids (fun u c un => walk bt F v2 fuel u c un) o3 (u3.modify o3 (fun ob => { ob with tparams := [] }))
                    (tps.map (fun tp => (tp.2, none, Setter.tparam tp.1))) with
                | none => simp [hr5] at hw
                | some u5 =>
                  simp only [hr5] at hw
                  obtain ⟨h5, _⟩ := runKids_inv ihw o3 _ _ _ h4 hr5
                  have s5 := runKids_allJ k ihw ih o3 _ _ _ h4 s4 hr5
                  obtain ⟨_, g4⟩ := modify_inv (o := o3) (f := fun ob => { ob with tparams := [] })
                    (fun ob _ => ⟨rfl, fun _ => rfl, fun r hr => .inl (by
                      simp only [refs, List.map_nil, List.append_nil, List.mem_append] at hr ⊢
                      exact .inl hr)⟩) p3.inv
                  obtain ⟨_, g5⟩ := runKids_inv ihw o3 _ _ _ h4 hr5
                  exact addMethods_allJ k ihw ih v2 u5 o3 ms u' o h5 s5 ((p3.good.1.mono g4).mono g5) hw
        · simp only [hsi, Bool.false_eq_true, if_false] at hw
          obtain ⟨h2, _, _⟩ := type_inv (bt := bt) (nameOf v2 (F.str g)) hi
          have s2 := type_allJ k (nameOf v2 (F.str g)) hs
          by_cases hk : (U.type bt u (nameOf v2 (F.str g))).1.kind (U.type bt u (nameOf v2 (F.str g))).2 ≠ .unknown
          · simp only [hk, ne_eq, not_false_eq_true, if_true, Option.some.injEq] at hw
            have e1 : (U.type bt u (nameOf v2 (F.str g))).1 = u' := by rw [hw]
            rw [← e1]; exact s2
          · simp only [hk, if_false] at hw
            cases hw2 : walk bt F v2 fuel (U.type bt u (nameOf v2 (F.str g))).1 und (some (nameOf v2 (F.str g))) with
            | none => simp [hw2] at hw
            | some p =>
              obtain ⟨u3, o3⟩ := p
              simp only [hw2] at hw
              have p3 := ihw _ _ _ _ _ h2 hw2
              have s3 := ih _ und (some (nameOf v2 (F.str g))) u3 o3 h2 s2 hw2
              exact addMethods_allJ k ihw ih v2 u3 o3 ms u' o p3.inv s3 p3.good.1 hw
    | _ =>
      have hsh : ∃ K kids, shape v2 (F.node g) = some (K, kids) := by rw [hn]; exact ⟨_, _, rfl⟩
      obtain ⟨K, kids, hsh⟩ := hsh
      have hw' : fill bt (fun u c un => walk bt F v2 fuel u c un) u (useName.getD (nameOf v2 (F.str g))) g (F.node g) K kids = some (u', o) := by
        simp only [walk, hn] at hw
        rw [hn] at hsh ⊢
        simp only [hsh] at hw
        exact hw
      exact fill_allJ k ihw ih u _ g (F.node g) K (shape_fillKind v2 _ K kids hsh) kids u' o hi hs hw'

/-! ## declarations, loaders -/
open Gengo.Loader

theorem decl_allJ {bt : List Builtin} {J : Obj → Prop} (k : ObjOK bt J) {u : U} (d : Decl) (n : Name) (h : AllJ J u) :
    AllJ J (u.decl d n).1 := by
  have hp : AllJ J (u.package n.pkg) := same_allJ (package_objs u n.pkg).1 h
  have s1 := newObj_allJ { name := n, kind := .declarationOf } (k.decl n) hp
  cases d <;> (
    unfold U.decl
    simp only
    split
    · exact h
    · exact same_allJ (u := ((u.package n.pkg).newObj { name := n, kind := .declarationOf }).1) rfl s1)

theorem addDecl_allJ {bt : List Builtin} {J : Obj → Prop} (k : ObjOK bt J) (F : Facts) (v2 : Bool) (fuel : Nat) (u : U) (d : Decl)
    (n : Name) (ty : Nat) (cv : Option Str) (u' : U) (hi : Inv bt u) (h : AllJ J u)
    (hf : addDecl bt F v2 fuel u d n ty cv = some u') : AllJ J u' := by
  unfold addDecl at hf
  obtain ⟨h1, g1, ob, hob, hk⟩ := decl_inv (bt := bt) d n hi
  have s1 := decl_allJ k d n h
  obtain ⟨h2, g2⟩ := modify_inv (o := (u.decl d n).2) (f := fun ob => { ob with kind := .declarationOf })
    (fun ob' hob' => ⟨rfl, fun _ => by rw [hob] at hob'; cases hob'; exact hk.symm, fun r hr => .inl hr⟩) h1
  have s2 : AllJ J ((u.decl d n).1.modify (u.decl d n).2 (fun ob => { ob with kind := .declarationOf })) :=
    modify_allJ (fun ob' hob' hj' => by
      rw [hob] at hob'; cases hob'
      have : ({ ob with kind := .declarationOf } : Obj) = ob := by cases ob; simp at hk ⊢; exact hk.symm
      rw [this]; exact hj') s1
  cases hw : walk bt F v2 fuel ((u.decl d n).1.modify (u.decl d n).2 (fun ob => { ob with kind := .declarationOf })) ty none with
  | none => simp [hw] at hf
  | some p =>
    obtain ⟨u3, o3⟩ := p
    simp only [hw, Option.some.injEq] at hf
    subst hf
    have p3 := walk_inv bt F v2 fuel _ _ _ _ _ h2 hw
    have s3 := walk_allJ bt F v2 J k fuel _ ty none u3 o3 h2 s2 hw
    -- the declaration object keeps its kind through the walk
    have hdk : ∀ ob3 : Obj, u3.objs[(u.decl d n).2]? = some ob3 → ob3.kind = .declarationOf := by
      intro ob3 hob3
      obtain ⟨ob', k1, _, k3⟩ := p3.grows.objs (u.decl d n).2 { ob with kind := .declarationOf } (modify_get_eq hob)
      rw [k1] at hob3; cases hob3
      exact k3 (by simp)
    exact modify_allJ (fun ob3 hob3 hj' => k.declUnder ob3 o3 cv (hdk ob3 hob3) hj') s3

theorem addObj_allJ {bt : List Builtin} {J : Obj → Prop} (k : ObjOK bt J) (F : Facts) (v2 : Bool) (fuel : Nat) (u : U) (ob : GObj)
    (u' : U) (hi : Inv bt u) (h : AllJ J u) (hf : addObj bt F v2 fuel u ob = some u') : AllJ J u' := by
  unfold addObj at hf
  cases hk : ob.kind with
  | typeName =>
    simp only [hk] at hf
    cases hw : walk bt F v2 fuel u ob.ty none with
    | none => simp [hw] at hf
    | some p =>
      simp only [hw, Option.map_some, Option.some.injEq] at hf
      subst hf
      exact walk_allJ bt F v2 J k fuel u ob.ty none p.1 p.2 hi h hw
  | func => simp only [hk] at hf; exact addDecl_allJ k F v2 fuel u _ _ _ _ u' hi h hf
  | var => simp only [hk] at hf; exact addDecl_allJ k F v2 fuel u _ _ _ _ u' hi h hf
  | const => simp only [hk] at hf; exact addDecl_allJ k F v2 fuel u _ _ _ _ u' hi h hf

/-- **loaders_keep_object_invariants**: with the universe invariant, `J` of every object is kept by the scans and loaders -/
theorem allJ_keeps (w : World) (J : Obj → Prop) (k : ObjOK w.bt J) : Keeps w (fun u => Inv w.bt u ∧ AllJ J u) where
  same := fun _ _ ho ht hb hd _ _ _ h => ⟨(inv_of_same ho ht hb hd h.1).1, same_allJ ho h.2⟩
  add := fun u ob u' _ h hf => ⟨(addObj_inv w.facts w.v2 w.fuel u ob u' h.1 hf).1, addObj_allJ k w.facts w.v2 w.fuel u ob u' h.1 h.2 hf⟩

theorem allJ_empty (J : Obj → Prop) : AllJ J {} := fun o ob h => by simp at h


/-! ## an object without a source node is a placeholder, a declaration, or an object of the builtins table -/

def NoSrcOK (bt : List Builtin) (ob : Obj) : Prop :=
  ob.src = none → ob.kind = .unknown ∨ ob.kind = .declarationOf ∨ ∃ b ∈ bt, b.kind = ob.kind ∧ ob.name = ⟨[], b.name⟩

theorem noSrc_ok (bt : List Builtin) : ObjOK bt (NoSrcOK bt) where
  fresh := fun _ _ => .inl rfl
  builtin := fun b hb _ => .inr (.inr ⟨b, hb, rfl, rfl⟩)
  tparam := fun _ _ h => by cases h
  decl := fun _ _ => .inr (.inl rfl)
  setter := fun set ob x h hs => by
    rw [setter_src] at hs
    rw [(setter_meta set ob x).1, (setter_meta set ob x).2]
    exact h hs
  mark := fun gn ob K g _ _ _ hs => by
    have : (markFields gn { ob with kind := K, src := some g }).src = some g := by cases gn <;> rfl
    rw [this] at hs; cases hs
  markAlias := fun _ _ _ _ hs => by cases hs
  clearTp := fun _ h hs => h hs
  setGhost := fun _ _ _ _ h hs => h hs
  declUnder := fun _ _ _ hk _ _ => .inr (.inl hk)

/-- both loaders, any sequence of incremental loads: every object without a source node is a placeholder, a declaration
or a table object -/
theorem loadsV2_noSrc (w : World) (req : List Str) (ms : List (List Str)) (a st : LState)
    (h1 : newUniverseV2 w req = some a) (h2 : WalkIso.loadsV2 w a ms = some st) : AllJ (NoSrcOK w.bt) st.u := by
  have k := allJ_keeps w (NoSrcOK w.bt) (noSrc_ok w.bt)
  have ha := k.newUniverseV2 ⟨inv_empty w.bt, allJ_empty _⟩ req a h1
  exact (foldl_bind_inv (fun s m => loadToV2 w s m) (fun s => Inv w.bt s.u ∧ AllJ (NoSrcOK w.bt) s.u)
    (fun s m s' hs hv => k.loadToV2 s s' m hs hv) ms a st ha h2).2

theorem addDirsV1_noSrc (w : World) (req : List Str) (ps : List Str) (a st : LState)
    (h1 : findTypesV1 w req = some a) (h2 : WalkIso.addDirsV1 w a ps = some st) : AllJ (NoSrcOK w.bt) st.u := by
  have k := allJ_keeps w (NoSrcOK w.bt) (noSrc_ok w.bt)
  have ha := k.findTypesV1 ⟨inv_empty w.bt, allJ_empty _⟩ req a h1
  exact (foldl_bind_inv (fun s p => addDirToV1 w s p) (fun s => Inv w.bt s.u ∧ AllJ (NoSrcOK w.bt) s.u)
    (fun s p s' hs hv => k.addDirToV1 s s' p hs hv) ps a st ha h2).2

end Gengo.WalkObj

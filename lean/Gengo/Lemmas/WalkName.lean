import Gengo.Lemmas.WalkDesc
/-!
# The object found under a name was filled from a node of that name (C01, C11)

`WalkDesc` shows that a filled object says what the node it was filled from (`src`) says.  This file ties that
node to the *name* the object is registered under: the object that a lookup of `n` returns was filled from a
node that the type checker prints as `n` – or, by the flattening rule, from the underlying struct/… node of
the defined type printed as `n`, or from the signature of the method printed as `n`.  Together:
what gengo reports under a name is what go/types says about the type of that name.

No restriction on generics is needed here.
-/
namespace Gengo.WalkName
open Gengo Gengo.Universe Gengo.WalkInv

/-- node `g` is one that `walkType` files under the name `n` -/
inductive NameFor (F : Facts) (v2 : Bool) : Name → Nat → Prop
  | self (g : Nat) : ((∃ K kids, shape v2 (F.node g) = some (K, kids)) ∨
        (∃ und ms tps ou, F.node g = .named und ms tps ou ∧ isAliasUnder (F.node und) = true)) →
      NameFor F v2 (nameOf v2 (F.str g)) g
  | basic {g : Nat} {nm : Str} : F.node g = .basic nm → NameFor F v2 ⟨[], nm⟩ g
  | under {g' und ou : Nat} {ms : List GMethod} {tps : List (Str × Nat)} :
      F.node g' = .named und ms tps ou → isAliasUnder (F.node und) = false → (v2 && isStructOrIface (F.node und)) = false →
      NameFor F v2 (nameOf v2 (F.str g')) und
  | orig {g' und ou : Nat} {ms : List GMethod} {tps : List (Str × Nat)} :
      F.node g' = .named und ms tps ou → isAliasUnder (F.node und) = false → (v2 && isStructOrIface (F.node und)) = true →
      NameFor F v2 (if tps.isEmpty then nameOf v2 (F.str g') else genericName (nameOf v2 (F.str g')) tps) ou
  | method {g' und ou : Nat} {ms : List GMethod} {tps : List (Str × Nat)} {m : GMethod} :
      F.node g' = .named und ms tps ou → m ∈ ms → NameFor F v2 (nameOf v2 m.str) m.sig
  | imethod {g' : Nat} {ms : List GMethod} {m : GMethod} :
      F.node g' = .iface ms → m ∈ ms → NameFor F v2 (nameOf v2 m.str) m.sig

/-- the entry of the builtins table that `Universe.Type` consults for `n` -/
def tableEntry (bt : List Builtin) (n : Name) : Option Builtin :=
  if n.pkg.isEmpty = true then bt.find? (fun b => b.key = n.name) else none

/-- every entry of the builtins table has a kind -/
def BtKinds (bt : List Builtin) : Prop := ∀ b ∈ bt, b.kind ≠ .unknown

/-- a registered object is a shared builtin (it has a kind and was never filled), or it carries the name it
is registered under and, if it was filled, it was filled from a node of that name -/
structure SN (bt : List Builtin) (F : Facts) (v2 : Bool) (u : U) : Prop where
  reg : ∀ (n : Name) (o : Nat) (ob : Obj), AL.lookup n u.types = some o → u.objs[o]? = some ob →
    (ob.kind ≠ .unknown ∧ ob.src = none) ∨ (ob.name = n ∧ ∀ g, ob.src = some g → NameFor F v2 n g)
  bobj : ∀ (var : Str) (o : Nat), AL.lookup var u.builtinObjs = some o →
    ∃ ob : Obj, u.objs[o]? = some ob ∧ ob.kind ≠ .unknown ∧ ob.src = none
  /-- which of the two it is depends on the name alone: under a key of the builtins table sits a table object, under
  any other name an object that has a kind only if it was filled from a node -/
  tk : ∀ (n : Name) (o : Nat) (ob : Obj), AL.lookup n u.types = some o → u.objs[o]? = some ob →
    (tableEntry bt n ≠ none ∧ ob.kind ≠ .unknown ∧ ob.src = none) ∨
    (tableEntry bt n = none ∧ (ob.src = none → ob.kind = .unknown))

/-! ## primitive steps -/

theorem same_sn {bt : List Builtin} {F : Facts} {v2 : Bool} {u u' : U} (ho : u'.objs = u.objs) (ht : u'.types = u.types)
    (hb : u'.builtinObjs = u.builtinObjs) (h : SN bt F v2 u) : SN bt F v2 u' := by
  refine ⟨?_, ?_, ?_⟩
  · intro n o ob hl hob; rw [ht] at hl; rw [ho] at hob; exact h.reg n o ob hl hob
  · intro var o hl; rw [hb] at hl; rw [ho]; exact h.bobj var o hl
  · intro n o ob hl hob; rw [ht] at hl; rw [ho] at hob; exact h.tk n o ob hl hob

theorem reg_lt {bt : List Builtin} {u : U} (hi : Inv bt u) (m : Name) (x : Nat) (hx : AL.lookup m u.types = some x) :
    x < u.objs.length := by
  obtain ⟨ob, h1, _⟩ := hi.nameOK m x hx
  exact (List.getElem?_eq_some_iff.mp h1).1

/-- appending an object that is not registered -/
theorem newObj_sn {F : Facts} {v2 : Bool} {bt : List Builtin} {u : U} (ob0 : Obj) (hi : Inv bt u) (h : SN bt F v2 u) :
    SN bt F v2 (u.newObj ob0).1 := by
  refine ⟨?_, ?_, ?_⟩
  · intro n o ob hl hob
    have hl' : AL.lookup n u.types = some o := hl
    have hlt := reg_lt hi n o hl'
    have hob' : (u.objs ++ [ob0])[o]? = some ob := hob
    rcases getElem?_append_new _ _ _ _ hob' with hold | ⟨he, _⟩
    · exact h.reg n o ob hl' hold
    · omega
  rotate_left
  · intro n o ob hl hob
    have hl' : AL.lookup n u.types = some o := hl
    have hlt := reg_lt hi n o hl'
    have hob' : (u.objs ++ [ob0])[o]? = some ob := hob
    rcases getElem?_append_new _ _ _ _ hob' with hold | ⟨he, _⟩
    · exact h.tk n o ob hl' hold
    · omega
  · intro var o hl
    obtain ⟨ob, h1, h2⟩ := h.bobj var o hl
    exact ⟨ob, getElem?_append_old _ _ _ _ h1, h2⟩

/-- registering an object under a free name -/
theorem register_sn {bt : List Builtin} {F : Facts} {v2 : Bool} {u : U} (n : Name) (o : Nat) (bo : List (Str × Nat))
    (hnew : ∀ ob : Obj, u.objs[o]? = some ob → (ob.kind ≠ .unknown ∧ ob.src = none) ∨ (ob.name = n ∧ ob.src = none))
    (htk : ∀ ob : Obj, u.objs[o]? = some ob → (tableEntry bt n ≠ none ∧ ob.kind ≠ .unknown ∧ ob.src = none) ∨
      (tableEntry bt n = none ∧ (ob.src = none → ob.kind = .unknown)))
    (hbo : ∀ var x, AL.lookup var bo = some x → AL.lookup var u.builtinObjs = some x ∨
      (x = o ∧ ∃ ob : Obj, u.objs[o]? = some ob ∧ ob.kind ≠ .unknown ∧ ob.src = none))
    (h : SN bt F v2 u) : SN bt F v2 { u with types := (n, o) :: u.types, builtinObjs := bo } := by
  refine ⟨?_, ?_, ?_⟩
  rotate_right
  · intro m x ob hl hob
    have hob' : u.objs[x]? = some ob := hob
    by_cases hm : n = m
    · subst hm
      have : AL.lookup n ((n, o) :: u.types) = some x := hl
      rw [lookup_cons_self] at this
      cases this
      exact htk ob hob'
    · have : AL.lookup m ((n, o) :: u.types) = some x := hl
      rw [lookup_cons_ne m n o u.types hm] at this
      exact h.tk m x ob this hob'
  · intro m x ob hl hob
    have hob' : u.objs[x]? = some ob := hob
    by_cases hm : n = m
    · subst hm
      have : AL.lookup n ((n, o) :: u.types) = some x := hl
      rw [lookup_cons_self] at this
      cases this
      rcases hnew ob hob' with h1 | ⟨h1, h2⟩
      · exact .inl h1
      · exact .inr ⟨h1, fun g hg => by rw [h2] at hg; cases hg⟩
    · have : AL.lookup m ((n, o) :: u.types) = some x := hl
      rw [lookup_cons_ne m n o u.types hm] at this
      exact h.reg m x ob this hob'
  · intro var x hl
    rcases hbo var x hl with hold | ⟨rfl, hx⟩
    · exact h.bobj var x hold
    · exact hx

/-- `u.Type(n)` keeps the naming invariant -/
theorem type_sn {F : Facts} {v2 : Bool} {bt : List Builtin} {u : U} (hbt : BtKinds bt) (n : Name) (hi : Inv bt u)
    (h : SN bt F v2 u) : SN bt F v2 (U.type bt u n).1 := by
  unfold U.type
  cases hl : AL.lookup n u.types with
  | some o => exact h
  | none =>
    simp only
    obtain ⟨hpo, hpt, hpb, hpd⟩ := package_objs u n.pkg
    obtain ⟨hp, _⟩ := inv_of_same hpo hpt hpb hpd hi
    have sp : SN bt F v2 (u.package n.pkg) := same_sn hpo hpt hpb h
    cases hb : (if n.pkg.isEmpty = true then bt.find? (fun b => b.key = n.name) else none) with
    | none =>
      simp only
      have s1 := newObj_sn (F := F) (v2 := v2) { name := n } hp sp
      obtain ⟨_, _, o1, _, _, _, _⟩ := newObj_inv (u := u.package n.pkg) { name := n } (by simp [refs]) hp
      exact register_sn n _ _ (fun ob hob => by rw [o1] at hob; cases hob; exact .inr ⟨rfl, rfl⟩)
        (fun ob hob => by rw [o1] at hob; cases hob; exact .inr ⟨hb, fun _ => rfl⟩)
        (fun _ _ hx => .inl hx) s1
    | some b =>
      simp only
      have hbm : b ∈ bt := by
        by_cases he : n.pkg.isEmpty = true
        · simp only [he, if_true] at hb; exact List.mem_of_find?_eq_some hb
        · simp [he] at hb
      cases hbo : AL.lookup b.var (u.package n.pkg).builtinObjs with
      | some o =>
        simp only
        obtain ⟨ob, k1, k2, k3⟩ := sp.bobj b.var o hbo
        exact register_sn n o _ (fun ob' hob' => by rw [k1] at hob'; cases hob'; exact .inl ⟨k2, k3⟩)
          (fun ob' hob' => by rw [k1] at hob'; cases hob'; exact .inl ⟨by unfold tableEntry; rw [hb]; simp, k2, k3⟩)
          (fun _ _ hx => .inl hx) sp
      | none =>
        simp only
        have s1 := newObj_sn (F := F) (v2 := v2) { name := ⟨[], b.name⟩, kind := b.kind } hp sp
        obtain ⟨_, _, o1, _, _, _, _⟩ := newObj_inv (u := u.package n.pkg) { name := ⟨[], b.name⟩, kind := b.kind } (by simp [refs]) hp
        refine register_sn n _ _ (fun ob hob => by rw [o1] at hob; cases hob; exact .inl ⟨hbt b hbm, rfl⟩)
          (fun ob hob => by rw [o1] at hob; cases hob; exact .inl ⟨by unfold tableEntry; rw [hb]; simp, hbt b hbm, rfl⟩) ?_ s1
        intro var x hx
        by_cases hv : b.var = var
        · subst hv
          rw [lookup_cons_self] at hx
          cases hx
          exact .inr ⟨rfl, _, o1, hbt b hbm, rfl⟩
        · rw [lookup_cons_ne var b.var _ _ hv] at hx
          exact .inl hx

/-- an update that keeps the name and the source node of an object, and a kind it has -/
theorem modify_sn {bt : List Builtin} {F : Facts} {v2 : Bool} {u : U} {o : Nat} {f : Obj → Obj}
    (hf : ∀ ob : Obj, (f ob).name = ob.name ∧ (f ob).src = ob.src ∧ (ob.kind ≠ .unknown → (f ob).kind ≠ .unknown))
    (hu : ∀ ob : Obj, u.objs[o]? = some ob → ob.kind = .unknown → (f ob).kind = .unknown)
    (h : SN bt F v2 u) : SN bt F v2 (u.modify o f) := by
  refine ⟨?_, ?_, ?_⟩
  rotate_right
  · intro n x ob hl hob
    have hl' : AL.lookup n u.types = some x := hl
    by_cases hox : o = x
    · subst hox
      cases h0 : u.objs[o]? with
      | none =>
        have : (u.modify o f).objs[o]? = none := by simp [U.modify, h0]
        rw [this] at hob; cases hob
      | some ob0 =>
        rw [modify_get_eq h0] at hob; cases hob
        obtain ⟨e1, e2, e3⟩ := hf ob0
        rcases h.tk n o ob0 hl' h0 with ⟨k0, k1, k2⟩ | ⟨k0, k1⟩
        · exact .inl ⟨k0, e3 k1, by rw [e2]; exact k2⟩
        · exact .inr ⟨k0, fun hs => hu ob0 h0 (k1 (by rw [← e2]; exact hs))⟩
    · rw [modify_get_ne hox] at hob; exact h.tk n x ob hl' hob
  · intro n x ob hl hob
    have hl' : AL.lookup n u.types = some x := hl
    by_cases hox : o = x
    · subst hox
      cases h0 : u.objs[o]? with
      | none =>
        have : (u.modify o f).objs[o]? = none := by simp [U.modify, h0]
        rw [this] at hob; cases hob
      | some ob0 =>
        rw [modify_get_eq h0] at hob; cases hob
        obtain ⟨e1, e2, e3⟩ := hf ob0
        rcases h.reg n o ob0 hl' h0 with ⟨k1, k2⟩ | ⟨k1, k2⟩
        · exact .inl ⟨e3 k1, by rw [e2]; exact k2⟩
        · exact .inr ⟨by rw [e1]; exact k1, fun g hg => k2 g (by rw [← e2]; exact hg)⟩
    · rw [modify_get_ne hox] at hob; exact h.reg n x ob hl' hob
  · intro var x hl
    have hl' : AL.lookup var u.builtinObjs = some x := hl
    obtain ⟨ob, h1, h2, h3⟩ := h.bobj var x hl'
    by_cases hox : o = x
    · subst hox
      obtain ⟨_, e2, e3⟩ := hf ob
      exact ⟨f ob, modify_get_eq h1, e3 h2, by rw [e2]; exact h3⟩
    · exact ⟨ob, by rw [modify_get_ne hox]; exact h1, h2, h3⟩

/-- marking the object registered under `n` (it has no kind yet) with a node of that name -/
theorem mark_sn {bt : List Builtin} {F : Facts} {v2 : Bool} {u : U} {o : Nat} {f : Obj → Obj} {n : Name} {g : Nat} {ob0 : Obj}
    (hl : AL.lookup n u.types = some o) (hob : u.objs[o]? = some ob0) (hunk : ob0.kind = .unknown)
    (hf : ∀ ob : Obj, (f ob).name = ob.name ∧ (f ob).src = some g) (hn : NameFor F v2 n g)
    (h : SN bt F v2 u) : SN bt F v2 (u.modify o f) := by
  have hname : ob0.name = n := by
    rcases h.reg n o ob0 hl hob with ⟨k1, _⟩ | ⟨k1, _⟩
    · exact absurd hunk k1
    · exact k1
  refine ⟨?_, ?_, ?_⟩
  rotate_right
  · intro m x ob hm hx
    have hm' : AL.lookup m u.types = some x := hm
    by_cases hox : o = x
    · subst hox
      rw [modify_get_eq hob] at hx; cases hx
      rcases h.tk m o ob0 hm' hob with ⟨_, k1, _⟩ | ⟨k0, _⟩
      · exact absurd hunk k1
      · exact .inr ⟨k0, fun hs => by rw [(hf ob0).2] at hs; cases hs⟩
    · rw [modify_get_ne hox] at hx; exact h.tk m x ob hm' hx
  · intro m x ob hm hx
    have hm' : AL.lookup m u.types = some x := hm
    by_cases hox : o = x
    · subst hox
      rw [modify_get_eq hob] at hx; cases hx
      rcases h.reg m o ob0 hm' hob with ⟨k1, _⟩ | ⟨k1, _⟩
      · exact absurd hunk k1
      · have hmn : m = n := k1.symm.trans hname
        subst hmn
        refine .inr ⟨by rw [(hf ob0).1]; exact k1, fun g' hg' => ?_⟩
        rw [(hf ob0).2] at hg'; cases hg'; exact hn
    · rw [modify_get_ne hox] at hx; exact h.reg m x ob hm' hx
  · intro var x hv
    have hv' : AL.lookup var u.builtinObjs = some x := hv
    obtain ⟨ob, h1, h2, h3⟩ := h.bobj var x hv'
    by_cases hox : o = x
    · subst hox
      rw [hob] at h1; cases h1
      exact absurd hunk h2
    · exact ⟨ob, by rw [modify_get_ne hox]; exact h1, h2, h3⟩


/-! ## `runKids`, `fill`, the methods phase -/

def WalkSNOK (F : Facts) (v2 : Bool) (bt : List Builtin) (w : U → Nat → Option Name → Option (U × Nat)) : Prop :=
  ∀ u c un u' oc, Inv bt u → SN bt F v2 u → (∀ n, un = some n → NameFor F v2 n c) → w u c un = some (u', oc) → SN bt F v2 u'

theorem setter_src (set : Setter) (ob : Obj) (x : Nat) : (set.apply ob x).src = ob.src := by
  cases set <;> rfl

theorem runKids_sn {F : Facts} {v2 : Bool} {bt : List Builtin} {w : U → Nat → Option Name → Option (U × Nat)}
    (hw : WalkOK bt w) (hs : WalkSNOK F v2 bt w) (o : Nat) :
    ∀ (kids : List (Nat × Option Name × Setter)) (u u' : U), Inv bt u → SN bt F v2 u →
      (∀ k ∈ kids, ∀ n, k.2.1 = some n → NameFor F v2 n k.1) → runKids w o u kids = some u' → SN bt F v2 u' := by
  intro kids
  induction kids with
  | nil => intro u u' _ h _ hr; simp only [runKids, Option.some.injEq] at hr; subst hr; exact h
  | cons k ks ih =>
    intro u u' hi h hk hr
    obtain ⟨c, un, set⟩ := k
    simp only [runKids] at hr
    cases hwc : w u c un with
    | none => simp [hwc] at hr
    | some p =>
      obtain ⟨u1, oc⟩ := p
      simp only [hwc] at hr
      have p1 := hw u c un u1 oc hi hwc
      have s1 := hs u c un u1 oc hi h (fun n hn => hk (c, un, set) List.mem_cons_self n hn) hwc
      obtain ⟨h2, _⟩ := modify_inv (o := o) (setter_goodUpdate u1 o set oc p1.good) p1.inv
      have s2 : SN bt F v2 (u1.modify o (fun ob => set.apply ob oc)) :=
        modify_sn (fun ob => ⟨(setter_meta set ob oc).1, setter_src set ob oc, fun hk0 => by rw [(setter_meta set ob oc).2]; exact hk0⟩)
          (fun ob _ hk0 => by rw [(setter_meta set ob oc).2]; exact hk0) s1
      exact ih _ _ h2 s2 (fun k hk' n hn => hk k (List.mem_cons_of_mem _ hk') n hn) hr

theorem fill_sn {F : Facts} {v2 : Bool} {bt : List Builtin} {w : U → Nat → Option Name → Option (U × Nat)}
    (hbt : BtKinds bt) (hw : WalkOK bt w) (hs : WalkSNOK F v2 bt w) (u : U) (n : Name) (g : Nat) (gn : GNode) (K : Kind)
    (kids : List (Nat × Option Name × Setter)) (u' : U) (o : Nat) (hi : Inv bt u) (h : SN bt F v2 u) (hn : NameFor F v2 n g)
    (hk : ∀ k ∈ kids, ∀ m, k.2.1 = some m → NameFor F v2 m k.1)
    (hf : fill bt w u n g gn K kids = some (u', o)) : SN bt F v2 u' := by
  unfold fill at hf
  obtain ⟨h1, _, l1⟩ := type_inv (bt := bt) n hi
  have s1 := type_sn (F := F) (v2 := v2) hbt n hi h
  obtain ⟨ob1, hob1, _⟩ := h1.nameOK n _ l1
  by_cases hkn : (U.type bt u n).1.kind (U.type bt u n).2 ≠ .unknown
  · simp only [hkn, ne_eq, not_false_eq_true, if_true, Option.some.injEq] at hf
    have e1 : (U.type bt u n).1 = u' := by rw [hf]
    rw [← e1]; exact s1
  · simp only [hkn, if_false] at hf
    have hunk : (U.type bt u n).1.kind (U.type bt u n).2 = .unknown := by simpa using hkn
    have hunk1 : ob1.kind = .unknown := by rw [kind_of_obj hob1] at hunk; exact hunk
    obtain ⟨h2, _⟩ := modify_inv (o := (U.type bt u n).2)
      (mark_goodUpdate _ _ (fun ob => markFields gn { ob with kind := K, src := some g }) hunk
        (fun ob => ⟨(markFields_meta gn _).1, (markFields_meta gn _).2.2⟩)) h1
    have s2 : SN bt F v2 ((U.type bt u n).1.modify (U.type bt u n).2 (fun ob => markFields gn { ob with kind := K, src := some g })) :=
      mark_sn l1 hob1 hunk1 (fun ob => ⟨(markFields_meta gn _).1, by cases gn <;> rfl⟩) hn s1
    cases hr : runKids w (U.type bt u n).2 ((U.type bt u n).1.modify (U.type bt u n).2 (fun ob => markFields gn { ob with kind := K, src := some g })) kids with
    | none => simp [hr] at hf
    | some u3 =>
      simp only [hr, Option.some.injEq, Prod.mk.injEq] at hf
      obtain ⟨rfl, rfl⟩ := hf
      exact runKids_sn hw hs _ kids _ _ h2 s2 hk hr

theorem methodKids_named {F : Facts} {v2 : Bool} (ms : List GMethod) (hms : ∀ m ∈ ms, NameFor F v2 (nameOf v2 m.str) m.sig) :
    ∀ k ∈ methodKids v2 ms, ∀ n, k.2.1 = some n → NameFor F v2 n k.1 := by
  intro k hk n hn
  simp only [methodKids, List.mem_map] at hk
  obtain ⟨m, hm, rfl⟩ := hk
  simp only [Option.some.injEq] at hn
  subst hn
  exact hms m hm

theorem addMethods_sn {F : Facts} {v2 : Bool} {bt : List Builtin} {w : U → Nat → Option Name → Option (U × Nat)}
    (hw : WalkOK bt w) (hs : WalkSNOK F v2 bt w) (u : U) (o : Nat) (ms : List GMethod) {g : Nat} (u' : U) (o' : Nat)
    (hi : Inv bt u) (h : SN bt F v2 u) (hms : ∀ m ∈ ms, NameFor F v2 (nameOf v2 m.str) m.sig)
    (hf : addMethods v2 w u o ms g = some (u', o')) : SN bt F v2 u' := by
  unfold addMethods at hf
  split at hf
  · obtain ⟨h1, _⟩ := modify_inv (o := o) (ghost_goodUpdate u o g false) hi
    have s1 : SN bt F v2 (u.modify o (fun ob => { ob with nsrc := some g, nskip := false })) :=
      modify_sn (fun ob => ⟨rfl, rfl, fun hk => hk⟩) (fun _ _ hk => hk) h
    cases hr : runKids w o (u.modify o (fun ob => { ob with nsrc := some g, nskip := false })) (methodKids v2 ms) with
    | none => simp [hr] at hf
    | some u3 =>
      simp only [hr, Option.some.injEq, Prod.mk.injEq] at hf
      obtain ⟨rfl, rfl⟩ := hf
      exact runKids_sn hw hs o _ _ _ h1 s1 (methodKids_named ms hms) hr
  · simp only [Option.some.injEq, Prod.mk.injEq] at hf
    obtain ⟨rfl, rfl⟩ := hf
    exact modify_sn (fun ob => ⟨rfl, rfl, fun hk => hk⟩) (fun _ _ hk => hk) h

/-- the children of an unnamed node are walked without a name, except the methods of an interface -/
theorem shape_kids_named {F : Facts} {v2 : Bool} (g : Nat) (K : Kind) (kids : List (Nat × Option Name × Setter))
    (hs : shape v2 (F.node g) = some (K, kids)) : ∀ k ∈ kids, ∀ n, k.2.1 = some n → NameFor F v2 n k.1 := by
  cases hn : F.node g with
  | iface ms =>
    simp only [hn, shape, Option.some.injEq, Prod.mk.injEq] at hs
    obtain ⟨_, rfl⟩ := hs
    exact methodKids_named ms (fun m hm => .imethod hn hm)
  | sig ps rs va recv =>
    simp only [hn, shape, Option.some.injEq, Prod.mk.injEq] at hs
    obtain ⟨_, rfl⟩ := hs
    intro k hk n hkn
    simp only [List.mem_append, List.mem_map] at hk
    rcases hk with (⟨p, _, rfl⟩ | ⟨p, _, rfl⟩) | hk
    · cases hkn
    · cases hkn
    · cases recv with
      | none => cases hk
      | some r => simp only [List.mem_singleton] at hk; subst hk; cases hkn
  | struct fs =>
    simp only [hn, shape, Option.some.injEq, Prod.mk.injEq] at hs
    obtain ⟨_, rfl⟩ := hs
    intro k hk n hkn
    simp only [List.mem_map] at hk
    obtain ⟨f, _, rfl⟩ := hk
    cases hkn
  | map k e =>
    simp only [hn, shape, Option.some.injEq, Prod.mk.injEq] at hs
    obtain ⟨_, rfl⟩ := hs
    intro k hk n hkn
    simp only [List.mem_cons, List.not_mem_nil, or_false] at hk
    rcases hk with rfl | rfl <;> cases hkn
  | pointer e =>
    simp only [hn, shape, Option.some.injEq, Prod.mk.injEq] at hs
    obtain ⟨_, rfl⟩ := hs
    intro k hk n hkn
    simp only [List.mem_singleton] at hk
    subst hk; cases hkn
  | slice e =>
    simp only [hn, shape, Option.some.injEq, Prod.mk.injEq] at hs
    obtain ⟨_, rfl⟩ := hs
    intro k hk n hkn
    simp only [List.mem_singleton] at hk
    subst hk; cases hkn
  | array len e =>
    simp only [hn, shape, Option.some.injEq, Prod.mk.injEq] at hs
    obtain ⟨_, rfl⟩ := hs
    intro k hk n hkn
    simp only [List.mem_singleton] at hk
    subst hk; cases hkn
  | chan e =>
    simp only [hn, shape, Option.some.injEq, Prod.mk.injEq] at hs
    obtain ⟨_, rfl⟩ := hs
    intro k hk n hkn
    simp only [List.mem_singleton] at hk
    subst hk; cases hkn
  | other =>
    simp only [hn, shape, Option.some.injEq, Prod.mk.injEq] at hs
    obtain ⟨_, rfl⟩ := hs
    intro k hk; cases hk
  | basic nm => simp [hn, shape] at hs
  | named _ _ _ _ => simp [hn, shape] at hs
  | alias t => simp [hn, shape] at hs
  | tparam c => simp [hn, shape] at hs

/-! ## `walkType` -/

/-- **walk_files_under_the_right_name**: `walkType` keeps the naming invariant -/
theorem walk_sn (bt : List Builtin) (F : Facts) (v2 : Bool) (hbt : BtKinds bt) :
    ∀ fuel, WalkSNOK F v2 bt (fun u c un => walk bt F v2 fuel u c un) := by
  intro fuel
  induction fuel with
  | zero => intro u c un u' oc _ _ _ hw; simp [walk] at hw
  | succ fuel ih =>
    intro u g useName u' o hi hs hun hw
    have ihw := walk_inv bt F v2 fuel
    cases hn : F.node g with
    | alias tgt =>
      simp only [walk, hn] at hw
      exact ih u tgt none u' o hi hs (fun _ h => by cases h) hw
    | basic nm =>
      simp only [walk, hn] at hw
      exact fill_sn hbt ihw ih u ⟨[], nm⟩ g (.basic nm) .unsupported [] u' o hi hs (.basic hn) (fun k hk => by cases hk) hw
    | tparam c =>
      simp only [walk, hn, Option.some.injEq] at hw
      have e : (u.newObj { name := useName.getD (nameOf v2 (F.str g)), kind := .typeParam, src := some g }).1 = u' := by rw [hw]
      rw [← e]
      exact newObj_sn _ hi hs
    | named und ms tps ou =>
      simp only [walk, hn] at hw
      have hms : ∀ m ∈ ms, NameFor F v2 (nameOf v2 m.str) m.sig := fun m hm => .method hn hm
      by_cases ha : isAliasUnder (F.node und) = true
      · simp only [ha, if_true] at hw
        obtain ⟨h1, _, l1⟩ := type_inv (bt := bt) (nameOf v2 (F.str g)) hi
        have s1 := type_sn (F := F) (v2 := v2) hbt (nameOf v2 (F.str g)) hi hs
        obtain ⟨ob1, hob1, _⟩ := h1.nameOK _ _ l1
        by_cases hk : (U.type bt u (nameOf v2 (F.str g))).1.kind (U.type bt u (nameOf v2 (F.str g))).2 ≠ .unknown
        · simp only [hk, ne_eq, not_false_eq_true, if_true, Option.some.injEq] at hw
          have e1 : (U.type bt u (nameOf v2 (F.str g))).1 = u' := by rw [hw]
          rw [← e1]; exact s1
        · simp only [hk, if_false] at hw
          have hunk : (U.type bt u (nameOf v2 (F.str g))).1.kind (U.type bt u (nameOf v2 (F.str g))).2 = .unknown := by simpa using hk
          have hunk1 : ob1.kind = .unknown := by rw [kind_of_obj hob1] at hunk; exact hunk
          obtain ⟨h2, _⟩ := modify_inv (o := (U.type bt u (nameOf v2 (F.str g))).2)
            (mark_goodUpdate _ _ (fun ob => { ob with kind := .alias, src := some g }) hunk (fun ob => ⟨rfl, rfl⟩)) h1
          have s2 : SN bt F v2 ((U.type bt u (nameOf v2 (F.str g))).1.modify (U.type bt u (nameOf v2 (F.str g))).2 (fun ob => { ob with kind := .alias, src := some g })) :=
            mark_sn l1 hob1 hunk1 (fun ob => ⟨rfl, rfl⟩)
              (.self g (.inr ⟨und, ms, tps, ou, hn, ha⟩)) s1
          cases hr : runKids (fun u c un => walk bt F v2 fuel u c un) (U.type bt u (nameOf v2 (F.str g))).2
              ((U.type bt u (nameOf v2 (F.str g))).1.modify (U.type bt u (nameOf v2 (F.str g))).2 (fun ob => { ob with kind := .alias, src := some g }))
              [(und, none, .under)] with
          | none => simp [hr] at hw
          | some u3 =>
            simp only [hr] at hw
            obtain ⟨h3, _⟩ := runKids_inv ihw _ _ _ _ h2 hr
            have s3 := runKids_sn ihw ih _ _ _ _ h2 s2 (fun k hk n hkn => by
              simp only [List.mem_singleton] at hk; subst hk; cases hkn) hr
            exact addMethods_sn ihw ih u3 _ ms u' o h3 s3 hms hw
      · simp only [ha, Bool.false_eq_true, if_false] at hw
        by_cases hsi : (v2 && isStructOrIface (F.node und)) = true
        · simp only [hsi, if_true] at hw
          cases hr0 : runKids (fun u c un => walk bt F v2 fuel u c un) 0 u (tps.map (fun tp => (tp.2, none, Setter.drop))) with
          | none => simp [hr0] at hw
          | some u1 =>
            simp only [hr0] at hw
            obtain ⟨h1, _⟩ := runKids_inv ihw 0 _ _ _ hi hr0
            have s1 := runKids_sn ihw ih 0 _ _ _ hi hs (fun k hk n hkn => by
              simp only [List.mem_map] at hk; obtain ⟨tp, _, rfl⟩ := hk; cases hkn) hr0
            have horig : NameFor F v2 (if tps.isEmpty = true then nameOf v2 (F.str g) else genericName (nameOf v2 (F.str g)) tps) ou :=
              .orig hn (by simpa using ha) hsi
            generalize hnm : (if tps.isEmpty = true then nameOf v2 (F.str g) else genericName (nameOf v2 (F.str g)) tps) = n' at hw horig
            obtain ⟨h2, _, _⟩ := type_inv (bt := bt) n' h1
            have s2 := type_sn (F := F) (v2 := v2) hbt n' h1 s1
            by_cases hk : (U.type bt u1 n').1.kind (U.type bt u1 n').2 ≠ .unknown
            · simp only [hk, ne_eq, not_false_eq_true, if_true, Option.some.injEq] at hw
              have e1 : (U.type bt u1 n').1 = u' := by rw [hw]
              rw [← e1]; exact s2
            · simp only [hk, if_false] at hw
              cases hw2 : walk bt F v2 fuel (U.type bt u1 n').1 ou (some n') with
              | none => simp [hw2] at hw
              | some p =>
                obtain ⟨u3, o3⟩ := p
                simp only [hw2] at hw
                have p3 := ihw _ _ _ _ _ h2 hw2
                have s3 := ih _ ou (some n') u3 o3 h2 s2 (fun m hm => by cases hm; exact horig) hw2
                obtain ⟨h4, _⟩ := modify_inv (o := o3) (f := fun ob => { ob with tparams := [] })
                  (fun ob _ => ⟨rfl, fun _ => rfl, fun r hr => .inl (by
                    simp only [refs, List.map_nil, List.append_nil, List.mem_append] at hr ⊢
                    exact .inl hr)⟩) p3.inv
                have s4 : SN bt F v2 (u3.modify o3 (fun ob => { ob with tparams := [] })) :=
                  modify_sn (fun ob => ⟨rfl, rfl, fun h => h⟩) (fun _ _ hk => hk) s3
                cases hr5 : runKids (fun u c un => walk bt F v2 fuel u c un) o3 (u3.modify o3 (fun ob => { ob with tparams := [] }))
                    (tps.map (fun tp => (tp.2, none, Setter.tparam tp.1))) with
                | none => simp [hr5] at hw
                | some u5 =>
                  simp only [hr5] at hw
                  obtain ⟨h5, _⟩ := runKids_inv ihw o3 _ _ _ h4 hr5
                  have s5 := runKids_sn ihw ih o3 _ _ _ h4 s4 (fun k hk n hkn => by
                    simp only [List.mem_map] at hk; obtain ⟨tp, _, rfl⟩ := hk; cases hkn) hr5
                  exact addMethods_sn ihw ih u5 o3 ms u' o h5 s5 hms hw
        · simp only [hsi, Bool.false_eq_true, if_false] at hw
          obtain ⟨h2, _, _⟩ := type_inv (bt := bt) (nameOf v2 (F.str g)) hi
          have s2 := type_sn (F := F) (v2 := v2) hbt (nameOf v2 (F.str g)) hi hs
          by_cases hk : (U.type bt u (nameOf v2 (F.str g))).1.kind (U.type bt u (nameOf v2 (F.str g))).2 ≠ .unknown
          · simp only [hk, ne_eq, not_false_eq_true, if_true, Option.some.injEq] at hw
            have e1 : (U.type bt u (nameOf v2 (F.str g))).1 = u' := by rw [hw]
            rw [← e1]; exact s2
          · simp only [hk, if_false] at hw
            cases hw2 : walk bt F v2 fuel (U.type bt u (nameOf v2 (F.str g))).1 und (some (nameOf v2 (F.str g))) with
            | none => simp [hw2] at hw
            | some p =>
              obtain ⟨u3, o3⟩ := p
              simp only [hw2] at hw
              have p3 := ihw _ _ _ _ _ h2 hw2
              have s3 := ih _ und (some (nameOf v2 (F.str g))) u3 o3 h2 s2 (fun m hm => by cases hm; exact .under hn (by simpa using ha) (by simpa using hsi)) hw2
              exact addMethods_sn ihw ih u3 o3 ms u' o p3.inv s3 hms hw
    | _ =>
      have hsh : ∃ K kids, shape v2 (F.node g) = some (K, kids) := by rw [hn]; exact ⟨_, _, rfl⟩
      obtain ⟨K, kids, hsh⟩ := hsh
      have hw' : fill bt (fun u c un => walk bt F v2 fuel u c un) u (useName.getD (nameOf v2 (F.str g))) g (F.node g) K kids = some (u', o) := by
        simp only [walk, hn] at hw
        rw [hn] at hsh ⊢
        simp only [hsh] at hw
        exact hw
      have hname : NameFor F v2 (useName.getD (nameOf v2 (F.str g))) g := by
        cases useName with
        | none => exact .self g (.inl ⟨K, kids, hsh⟩)
        | some n => exact hun n rfl
      exact fill_sn hbt ihw ih u _ g (F.node g) K kids u' o hi hs hname (shape_kids_named g K kids hsh) hw'


/-! ## any invariant of the object store that `addObj` keeps is kept by the scans and by both loaders -/
open Gengo.Loader

/-- `I` does not look at package records and is kept by adding one package-scope object -/
structure Keeps (w : World) (I : U → Prop) : Prop where
  same : ∀ u u' : U, u'.objs = u.objs → u'.types = u.types → u'.builtinObjs = u.builtinObjs → declObjs u' = declObjs u →
    u'.funcs = u.funcs → u'.vars = u.vars → u'.consts = u.consts → I u → I u'
  add : ∀ (u : U) (ob : GObj) (u' : U), (∃ p ∈ w.pkgs, ob ∈ p.scope) → I u → addObj w.bt w.facts w.v2 w.fuel u ob = some u' → I u'

theorem package_idx (u : U) (p : Str) : (u.package p).funcs = u.funcs ∧ (u.package p).vars = u.vars ∧ (u.package p).consts = u.consts := by
  unfold U.package; split <;> exact ⟨rfl, rfl, rfl⟩

theorem addImports_idx (u : U) (p : Str) (imps : List Str) :
    (u.addImports p imps).funcs = u.funcs ∧ (u.addImports p imps).vars = u.vars ∧ (u.addImports p imps).consts = u.consts := by
  unfold U.addImports
  have key : ∀ (l : List Str) (x : U), (l.foldl (fun u i => u.package i) x).funcs = x.funcs ∧
      (l.foldl (fun u i => u.package i) x).vars = x.vars ∧ (l.foldl (fun u i => u.package i) x).consts = x.consts := by
    intro l
    induction l with
    | nil => intro x; exact ⟨rfl, rfl, rfl⟩
    | cons i rest ih =>
      intro x
      simp only [List.foldl_cons]
      obtain ⟨a, b, c⟩ := ih (x.package i)
      obtain ⟨a', b', c'⟩ := package_idx x i
      exact ⟨a.trans a', b.trans b', c.trans c'⟩
  obtain ⟨a, b, c⟩ := key imps (u.package p)
  obtain ⟨a', b', c'⟩ := package_idx u p
  exact ⟨a.trans a', b.trans b', c.trans c'⟩

theorem Keeps.addObjs {w : World} {I : U → Prop} (k : Keeps w I) :
    ∀ (obs : List GObj) (u u' : U), (∀ ob ∈ obs, ∃ p ∈ w.pkgs, ob ∈ p.scope) → I u →
      addObjs w.bt w.facts w.v2 w.fuel u obs = some u' → I u' := by
  intro obs
  induction obs with
  | nil => intro u u' _ h hf; simp only [Universe.addObjs, Option.some.injEq] at hf; subst hf; exact h
  | cons ob rest ih =>
    intro u u' hm h hf
    simp only [Universe.addObjs] at hf
    cases ha : addObj w.bt w.facts w.v2 w.fuel u ob with
    | none => simp [ha] at hf
    | some u1 =>
      simp only [ha] at hf
      exact ih u1 u' (fun o ho => hm o (List.mem_cons_of_mem _ ho)) (k.add u ob u1 (hm ob List.mem_cons_self) h ha) hf

theorem World.find_mem {w : World} {path : Str} {p : GPkg} (h : w.find path = some p) : p ∈ w.pkgs :=
  List.mem_of_find?_eq_some h

theorem Keeps.scanPkg {w : World} {I : U → Prop} (k : Keeps w I) (u : U) (p : GPkg) (hp : p ∈ w.pkgs) (u' : U) (h : I u)
    (hf : scanPkg w.bt w.facts w.v2 w.fuel u p = some u') : I u' := by
  unfold Universe.scanPkg at hf
  obtain ⟨a, b, c, d⟩ := package_objs u p.path
  obtain ⟨pf, pv, pc⟩ := package_idx u p.path
  have h1 := k.same u ((u.package p.path).setPkg p.path (fun r => { r with name := p.name })) a b c d pf pv pc h
  cases ha : Universe.addObjs w.bt w.facts w.v2 w.fuel ((u.package p.path).setPkg p.path (fun r => { r with name := p.name })) p.scope with
  | none => simp [ha] at hf
  | some u2 =>
    simp only [ha, Option.some.injEq] at hf
    subst hf
    have h2 := k.addObjs _ _ _ (fun ob ho => ⟨p, hp, ho⟩) h1 ha
    obtain ⟨a', b', c', d'⟩ := addImports_same u2 p.path (p.imports.mergeSort Str.le)
    obtain ⟨af, av, ac⟩ := addImports_idx u2 p.path (p.imports.mergeSort Str.le)
    exact k.same _ _ a' b' c' d' af av ac h2

theorem Keeps.visitV2 {w : World} {I : U → Prop} (k : Keeps w I) :
    ∀ (n : Nat) (st st' : LState) (path : Str), I st.u → visitV2 w n st path = some st' → I st'.u := by
  intro n
  induction n with
  | zero => intro st st' path _ h; simp [Loader.visitV2] at h
  | succ n ih =>
    intro st st' path hinv h
    simp only [Loader.visitV2] at h
    split at h
    · cases h; exact hinv
    · cases hf : w.find path with
      | none => simp [hf] at h
      | some p =>
        simp only [hf] at h
        obtain ⟨a, b, c, d⟩ := package_objs st.u path
        obtain ⟨pf, pv, pc⟩ := package_idx st.u path
        have h1 := k.same _ _ a b c d pf pv pc hinv
        split at h
        · cases h; exact h1
        · obtain ⟨a2, b2, c2, d2⟩ := package_objs (st.u.package path) p.path
          obtain ⟨pf2, pv2, pc2⟩ := package_idx (st.u.package path) p.path
          have h2 := k.same _ (((st.u.package path).package p.path).setPkg p.path (fun r => { r with name := p.name })) a2 b2 c2 d2 pf2 pv2 pc2 h1
          cases ha : Universe.addObjs w.bt w.facts w.v2 w.fuel (((st.u.package path).package p.path).setPkg p.path (fun r => { r with name := p.name })) p.scope with
          | none => simp [ha] at h
          | some u3 =>
            simp only [ha] at h
            have h3 := k.addObjs _ _ _ (fun ob ho => ⟨p, World.find_mem hf, ho⟩) h2 ha
            generalize hst3 : ({ u := u3, requested := st.requested, processed := st.processed ++ [path] } : LState) = st3 at h
            cases hfold : p.imports.foldl (fun acc i => acc.bind (fun s => Loader.visitV2 w n s i)) (some st3) with
            | none => simp [hfold] at h
            | some st4 =>
              simp only [hfold, Option.some.injEq] at h
              subst h
              have h4 := foldl_bind_inv (fun s i => Loader.visitV2 w n s i) (fun s => I s.u)
                (fun s i s' hs hv => ih s s' i hs hv) p.imports st3 st4 (by subst hst3; exact h3) hfold
              obtain ⟨a5, b5, c5, d5⟩ := addImports_same st4.u p.path (p.imports.mergeSort Str.le)
              obtain ⟨af, av, ac⟩ := addImports_idx st4.u p.path (p.imports.mergeSort Str.le)
              exact k.same _ _ a5 b5 c5 d5 af av ac h4

theorem Keeps.addPkgsV2 {w : World} {I : U → Prop} (k : Keeps w I) (st st' : LState) (roots : List Str)
    (hinv : I st.u) (h : addPkgsV2 w st roots = some st') : I st'.u := by
  unfold Loader.addPkgsV2 at h
  exact foldl_bind_inv (fun s p => Loader.visitV2 w (w.pkgs.length + 1) s p) (fun s => I s.u)
    (fun s p s' hs hv => k.visitV2 _ s s' p hs hv) _ st st' hinv h

theorem Keeps.newUniverseV2 {w : World} {I : U → Prop} (k : Keeps w I) (h0 : I {}) (req : List Str) (st : LState)
    (h : newUniverseV2 w req = some st) : I st.u := by
  unfold Loader.newUniverseV2 at h
  exact k.addPkgsV2 _ st _ h0 h

theorem Keeps.loadToV2 {w : World} {I : U → Prop} (k : Keeps w I) (st st' : LState) (more : List Str)
    (hinv : I st.u) (h : loadToV2 w st more = some st') : I st'.u := by
  unfold Loader.loadToV2 at h
  exact k.addPkgsV2 { st with requested := more.foldl (fun acc r => if acc.contains r then acc else acc ++ [r]) st.requested } st' more hinv h

theorem Keeps.findTypesInV1 {w : World} {I : U → Prop} (k : Keeps w I) (st st' : LState) (path : Str)
    (hinv : I st.u) (h : findTypesInV1 w st path = some st') : I st'.u := by
  unfold Loader.findTypesInV1 at h
  cases hf : w.find path with
  | none => simp [hf] at h
  | some p =>
    simp only [hf] at h
    split at h
    · cases h; exact hinv
    · cases hs : Universe.scanPkg w.bt w.facts w.v2 w.fuel st.u p with
      | none => simp [hs] at h
      | some u' =>
        simp only [hs, Option.map_some, Option.some.injEq] at h
        subst h
        exact k.scanPkg st.u p (World.find_mem hf) u' hinv hs

theorem Keeps.findTypesV1 {w : World} {I : U → Prop} (k : Keeps w I) (h0 : I {}) (req : List Str) (st : LState)
    (h : findTypesV1 w req = some st) : I st.u := by
  unfold Loader.findTypesV1 at h
  exact foldl_bind_inv (fun s p => Loader.findTypesInV1 w s p) (fun s => I s.u)
    (fun s p s' hs hv => k.findTypesInV1 s s' p hs hv) _ _ st h0 h

theorem Keeps.addDirToV1 {w : World} {I : U → Prop} (k : Keeps w I) (st st' : LState) (path : Str)
    (hinv : I st.u) (h : addDirToV1 w st path = some st') : I st'.u := by
  unfold Loader.addDirToV1 at h
  exact k.findTypesInV1 { st with requested := if st.requested.contains path then st.requested else st.requested ++ [path] } st' path hinv h

/-! ## declarations -/

theorem decl_sn {F : Facts} {v2 : Bool} {bt : List Builtin} {u : U} (d : Decl) (n : Name) (hi : Inv bt u) (h : SN bt F v2 u) :
    SN bt F v2 (u.decl d n).1 := by
  obtain ⟨hpo, hpt, hpb, hpd⟩ := package_objs u n.pkg
  obtain ⟨hp, _⟩ := inv_of_same hpo hpt hpb hpd hi
  have sp : SN bt F v2 (u.package n.pkg) := same_sn hpo hpt hpb h
  have s1 := newObj_sn (F := F) (v2 := v2) { name := n, kind := .declarationOf } hp sp
  cases d <;> (
    unfold U.decl
    simp only
    split
    · exact h
    · exact same_sn (u := ((u.package n.pkg).newObj { name := n, kind := .declarationOf }).1) rfl rfl rfl s1)

/-- the naming invariant (with the universe invariant) through one package-scope object -/
def NInv (bt : List Builtin) (F : Facts) (v2 : Bool) (u : U) : Prop := Inv bt u ∧ SN bt F v2 u

theorem addDecl_sn {bt : List Builtin} (F : Facts) (v2 : Bool) (hbt : BtKinds bt) (fuel : Nat) (u : U) (d : Decl) (n : Name)
    (ty : Nat) (cv : Option Str) (u' : U) (hi : Inv bt u) (h : SN bt F v2 u)
    (hf : addDecl bt F v2 fuel u d n ty cv = some u') : SN bt F v2 u' := by
  unfold addDecl at hf
  obtain ⟨h1, _, ob, hob, hk⟩ := decl_inv (bt := bt) d n hi
  have s1 := decl_sn (F := F) (v2 := v2) d n hi h
  obtain ⟨h2, _⟩ := modify_inv (o := (u.decl d n).2) (f := fun ob => { ob with kind := .declarationOf })
    (fun ob' hob' => ⟨rfl, fun _ => by rw [hob] at hob'; cases hob'; exact hk.symm, fun r hr => .inl hr⟩) h1
  have s2 : SN bt F v2 ((u.decl d n).1.modify (u.decl d n).2 (fun ob => { ob with kind := .declarationOf })) :=
    modify_sn (fun ob => ⟨rfl, rfl, fun _ => by simp⟩)
      (fun ob' hob' hk' => by rw [hob] at hob'; cases hob'; rw [hk] at hk'; cases hk') s1
  cases hw : walk bt F v2 fuel ((u.decl d n).1.modify (u.decl d n).2 (fun ob => { ob with kind := .declarationOf })) ty none with
  | none => simp [hw] at hf
  | some p =>
    obtain ⟨u3, o3⟩ := p
    simp only [hw, Option.some.injEq] at hf
    subst hf
    have s3 := walk_sn bt F v2 hbt fuel _ ty none u3 o3 h2 s2 (fun _ hh => by cases hh) hw
    exact modify_sn (fun ob => ⟨rfl, rfl, fun hh => hh⟩) (fun _ _ hk => hk) s3

theorem addObj_ninv {bt : List Builtin} (F : Facts) (v2 : Bool) (hbt : BtKinds bt) (fuel : Nat) (u : U) (ob : GObj) (u' : U)
    (h : NInv bt F v2 u) (hf : addObj bt F v2 fuel u ob = some u') : NInv bt F v2 u' := by
  refine ⟨(addObj_inv F v2 fuel u ob u' h.1 hf).1, ?_⟩
  unfold addObj at hf
  cases hk : ob.kind with
  | typeName =>
    simp only [hk] at hf
    cases hw : walk bt F v2 fuel u ob.ty none with
    | none => simp [hw] at hf
    | some p =>
      simp only [hw, Option.map_some, Option.some.injEq] at hf
      subst hf
      exact walk_sn bt F v2 hbt fuel u ob.ty none p.1 p.2 h.1 h.2 (fun _ hh => by cases hh) hw
  | func => simp only [hk] at hf; exact addDecl_sn F v2 hbt fuel u _ _ _ _ u' h.1 h.2 hf
  | var => simp only [hk] at hf; exact addDecl_sn F v2 hbt fuel u _ _ _ _ u' h.1 h.2 hf
  | const => simp only [hk] at hf; exact addDecl_sn F v2 hbt fuel u _ _ _ _ u' h.1 h.2 hf

theorem ninv_keeps (w : World) (hbt : BtKinds w.bt) : Keeps w (NInv w.bt w.facts w.v2) where
  same := fun _ _ ho ht hb hd _ _ _ h => ⟨(inv_of_same ho ht hb hd h.1).1, same_sn ho ht hb h.2⟩
  add := fun u ob u' _ h hf => addObj_ninv w.facts w.v2 hbt w.fuel u ob u' h hf

theorem ninv_empty (bt : List Builtin) (F : Facts) (v2 : Bool) : NInv bt F v2 {} :=
  ⟨inv_empty bt, ⟨fun n o ob h => by simp [AL.lookup] at h, fun v o h => by simp [AL.lookup] at h,
    fun n o ob h => by simp [AL.lookup] at h⟩⟩

/-- what the naming invariant gives a reader: the object found under `n`, if it was filled, was filled from a
node filed under `n` -/
theorem found_under_its_name {bt : List Builtin} {F : Facts} {v2 : Bool} {u : U} (h : NInv bt F v2 u) (n : Name) (o : Nat) (ob : Obj)
    (g : Nat) (hl : AL.lookup n u.types = some o) (hob : u.objs[o]? = some ob) (hs : ob.src = some g) : NameFor F v2 n g := by
  rcases h.2.reg n o ob hl hob with ⟨_, k2⟩ | ⟨_, k2⟩
  · rw [k2] at hs; cases hs
  · exact k2 g hs

end Gengo.WalkName

import Gengo.Lemmas.WalkObj
/-!
# The common part of two universes is closed under reachability (C11)

`WalkIso` shows that two universes built from the same program agree on every name that is registered *and filled*
in both.  This file closes the gap to "everything reachable": an object that is filled in the one universe and
registered with a kind in the other was filled there as well (the naming invariant knows, from the name alone, whether a
table object or a filled object sits under it), references of corresponding objects correspond position by position, and
every reference points to an object with a kind (`Closed`).  Hence whatever can be reached from a pair of corresponding
objects in the one universe has a counterpart, reached along the same positions, in the other.
-/
namespace Gengo.WalkReach
open Gengo Gengo.Universe Gengo.WalkInv Gengo.WalkDesc Gengo.WalkName Gengo.WalkIso

/-- the references an object's kind gives a meaning to, in a fixed order (what `ObjEq` compares) -/
def crefs (ob : Obj) : List Nat :=
  match ob.kind with
  | .pointer => ob.elem.toList
  | .slice => ob.elem.toList
  | .array => ob.elem.toList
  | .chan => ob.elem.toList
  | .map => ob.key.toList ++ ob.elem.toList
  | .struct => ob.members.map (·.2.2.2)
  | .func => ob.params.map (·.2) ++ ob.results.map (·.2)
  | .alias => ob.under.toList
  | _ => []

theorem crefs_sub_refs (ob : Obj) : ∀ r ∈ crefs ob, r ∈ refs ob := by
  intro r hr
  unfold crefs at hr
  unfold refs
  cases hk : ob.kind <;> simp only [hk] at hr <;> simp only [List.mem_append] <;>
    first
    | (simp at hr; done)
    | (rcases List.mem_append.mp hr with h | h <;> simp [h])
    | simp [hr]

theorem All2.of_map {α β γ δ : Type} {R : γ → δ → Prop} {f : α → γ} {g : β → δ} {l₁ : List α} {l₂ : List β}
    (h : All2 (fun a b => R (f a) (g b)) l₁ l₂) : All2 R (l₁.map f) (l₂.map g) := by
  induction h with
  | nil => exact .nil
  | cons h _ ih => exact .cons h ih

theorem optLinked_toList {u1 u2 : U} {x1 x2 : Option Nat} (h : OptLinked u1 u2 x1 x2) :
    All2 (Linked u1 u2) x1.toList x2.toList := by
  obtain ⟨r1, r2, rfl, rfl, hl⟩ := h
  exact .cons hl .nil

/-- corresponding objects have corresponding references, position by position -/
theorem objEq_crefs {u1 u2 : U} {ob1 ob2 : Obj} (h : ObjEq u1 u2 ob1 ob2) : All2 (Linked u1 u2) (crefs ob1) (crefs ob2) := by
  have hk := h.kind
  unfold crefs
  cases hk1 : ob1.kind <;> rw [hk1] at hk <;> simp only [← hk]
  case pointer => exact optLinked_toList (h.elem (.inl hk1))
  case slice => exact optLinked_toList (h.elem (.inr (.inl hk1)))
  case array => exact optLinked_toList (h.elem (.inr (.inr (.inl hk1))))
  case chan => exact optLinked_toList (h.elem (.inr (.inr (.inr (.inl hk1)))))
  case map => exact All2.append (optLinked_toList (h.key hk1)) (optLinked_toList (h.elem (.inr (.inr (.inr (.inr hk1))))))
  case struct => exact All2.of_map ((h.members hk1).imp (fun _ _ hm => hm.2.2.2))
  case func =>
    obtain ⟨_, hp, hr⟩ := h.sig hk1
    exact All2.append (All2.of_map (hp.imp (fun _ _ hm => hm.2))) (All2.of_map (hr.imp (fun _ _ hm => hm.2)))
  case alias => exact optLinked_toList (h.under hk1)
  all_goals exact .nil

theorem All2.mem_left {α β : Type} {R : α → β → Prop} {l₁ : List α} {l₂ : List β} (h : All2 R l₁ l₂) :
    ∀ a ∈ l₁, ∃ b ∈ l₂, R a b := by
  induction h with
  | nil => intro a ha; cases ha
  | cons h _ ih =>
    intro a ha
    rcases List.mem_cons.mp ha with rfl | ha
    · exact ⟨_, List.mem_cons_self, h⟩
    · obtain ⟨b, hb, hr⟩ := ih a ha
      exact ⟨b, List.mem_cons_of_mem _ hb, hr⟩

theorem All2.and_mem {α β : Type} {R : α → β → Prop} {P : α → Prop} {Q : β → Prop} {l₁ : List α} {l₂ : List β}
    (h : All2 R l₁ l₂) (c1 : ∀ a ∈ l₁, P a) (c2 : ∀ b ∈ l₂, Q b) : All2 (fun a b => R a b ∧ P a ∧ Q b) l₁ l₂ := by
  induction h with
  | nil => exact .nil
  | cons hab _ ih =>
    exact .cons ⟨hab, c1 _ List.mem_cons_self, c2 _ List.mem_cons_self⟩
      (ih (fun r hr => c1 r (List.mem_cons_of_mem _ hr)) (fun r hr => c2 r (List.mem_cons_of_mem _ hr)))

/-- the same position on either side -/
theorem All2.get {α β : Type} {R : α → β → Prop} {l₁ : List α} {l₂ : List β} (h : All2 R l₁ l₂) :
    ∀ (i : Nat) (a : α), l₁[i]? = some a → ∃ b, l₂[i]? = some b ∧ R a b := by
  induction h with
  | nil => intro i a ha; simp at ha
  | cons h _ ih =>
    intro i a ha
    cases i with
    | zero => simp only [List.getElem?_cons_zero, Option.some.injEq] at ha; subst ha; exact ⟨_, by simp, h⟩
    | succ i => simp only [List.getElem?_cons_succ] at ha ⊢; exact ih i a ha

/-- `r1` and `r2` correspond: registered under one name (or type parameters of one name), both with a kind -/
def Corr (u1 u2 : U) (r1 r2 : Nat) : Prop := Linked u1 u2 r1 r2 ∧ Known u1 r1 ∧ Known u2 r2

/-- **filled_in_both**: what is filled from a node in the one universe and has a kind in the other was filled from a
node there too -/
theorem filled_in_both {bt : List Builtin} {F : Facts} {v2 : Bool} {u1 u2 : U} (h1 : SN bt F v2 u1) (h2 : SN bt F v2 u2)
    {n : Name} {o1 o2 : Nat} {ob1 ob2 : Obj} (l1 : AL.lookup n u1.types = some o1) (l2 : AL.lookup n u2.types = some o2)
    (hob1 : u1.objs[o1]? = some ob1) (hob2 : u2.objs[o2]? = some ob2) (hs : ob1.src ≠ none) (hk : ob2.kind ≠ .unknown) :
    ob2.src ≠ none := by
  rcases h1.tk n o1 ob1 l1 hob1 with ⟨_, _, k⟩ | ⟨k0, _⟩
  · exact absurd k hs
  · rcases h2.tk n o2 ob2 l2 hob2 with ⟨k1, _⟩ | ⟨_, k2⟩
    · exact absurd k0 k1
    · exact fun hn => hk (k2 hn)

/-- … and what is a table object in the one is a table object in the other -/
theorem unfilled_in_both {bt : List Builtin} {F : Facts} {v2 : Bool} {u1 u2 : U} (h1 : SN bt F v2 u1) (h2 : SN bt F v2 u2)
    {n : Name} {o1 o2 : Nat} {ob1 ob2 : Obj} (l1 : AL.lookup n u1.types = some o1) (l2 : AL.lookup n u2.types = some o2)
    (hob1 : u1.objs[o1]? = some ob1) (hob2 : u2.objs[o2]? = some ob2) (hs : ob1.src = none) (hk1 : ob1.kind ≠ .unknown)
    (hk2 : ob2.kind ≠ .unknown) : ob2.src = none ∧ tableEntry bt n ≠ none := by
  rcases h1.tk n o1 ob1 l1 hob1 with ⟨k0, _, _⟩ | ⟨_, k⟩
  · rcases h2.tk n o2 ob2 l2 hob2 with ⟨_, _, k2⟩ | ⟨k1, _⟩
    · exact ⟨k2, k0⟩
    · exact absurd k1 k0
  · exact absurd (k hs) hk1

/-- type-parameter objects have no references the kind gives a meaning to -/
theorem crefs_typeParam {ob : Obj} (h : ob.kind = .typeParam) : crefs ob = [] := by
  unfold crefs; rw [h]

/-- **corr_step**: corresponding objects are both objects of the builtins table (never filled), or they have the same kind
and their references correspond position by position, each again with a kind -/
theorem corr_step {bt : List Builtin} {F : Facts} {v2 : Bool} (hc : Consistent F v2) {u1 u2 : U}
    (h1 : Faithful bt F v2 u1) (h2 : Faithful bt F v2 u2) {r1 r2 : Nat} (h : Corr u1 u2 r1 r2) :
    ∃ ob1 ob2 : Obj, u1.objs[r1]? = some ob1 ∧ u2.objs[r2]? = some ob2 ∧
      ((ob1.src = none ∧ ob2.src = none) ∨
       (ob1.kind = ob2.kind ∧ All2 (Corr u1 u2) (crefs ob1) (crefs ob2))) := by
  obtain ⟨⟨b, n, d1, d2⟩, ⟨ob1, hob1, hk1⟩, ⟨ob2, hob2, hk2⟩⟩ := h
  refine ⟨ob1, ob2, hob1, hob2, ?_⟩
  have good : ObjEq u1 u2 ob1 ob2 → All2 (Corr u1 u2) (crefs ob1) (crefs ob2) := by
    intro he
    exact All2.and_mem (objEq_crefs he)
      (fun r hr => (h1.1.1.closed r1 ob1 hob1 r (crefs_sub_refs ob1 r hr)).1)
      (fun r hr => (h2.1.1.closed r2 ob2 hob2 r (crefs_sub_refs ob2 r hr)).1)
  rcases d1 with ⟨rfl, l1⟩ | ⟨rfl, x1, e1, t1, nm1⟩
  · -- registered under `n` in both
    rcases d2 with ⟨_, l2⟩ | ⟨hb, _⟩
    · cases hs1 : ob1.src with
      | none =>
        exact .inl ⟨rfl, (unfilled_in_both h1.2 h2.2 l1 l2 hob1 hob2 hs1 hk1 hk2).1⟩
      | some g1 =>
        have hs2 := filled_in_both h1.2 h2.2 l1 l2 hob1 hob2 (by rw [hs1]; simp) hk2
        cases hs2' : ob2.src with
        | none => exact absurd hs2' hs2
        | some g2 =>
          have he := same_name_same_content hc h1 h2 n r1 r2 ob1 ob2 g1 g2 l1 l2 hob1 hob2 hs1 hs2'
          exact .inr ⟨he.kind, good he⟩
    · cases hb
  · -- type parameters of one name
    rcases d2 with ⟨hb, _⟩ | ⟨_, x2, e2, t2, nm2⟩
    · cases hb
    rw [hob1] at e1; cases e1
    rw [hob2] at e2; cases e2
    refine .inr ⟨t1.trans t2.symm, ?_⟩
    rw [crefs_typeParam t1, crefs_typeParam t2]; exact .nil

/-- reachable along references from objects that were filled from a node -/
inductive Reach (u : U) : Nat → Nat → Prop
  | refl (r : Nat) : Reach u r r
  | step {r r' r'' : Nat} {ob : Obj} : u.objs[r]? = some ob → ob.src ≠ none → r' ∈ crefs ob → Reach u r' r'' → Reach u r r''

/-- the same, remembering the positions taken -/
inductive ReachAt (u : U) : Nat → List Nat → Nat → Prop
  | refl (r : Nat) : ReachAt u r [] r
  | step {r r' r'' : Nat} {ob : Obj} {i : Nat} {p : List Nat} : u.objs[r]? = some ob → ob.src ≠ none → (crefs ob)[i]? = some r' →
      ReachAt u r' p r'' → ReachAt u r (i :: p) r''

/-- **common_part_closed**: from corresponding objects, whatever is reached in the one universe along some positions is
matched by what is reached along the same positions in the other, and the two correspond again (so they have the same
kind, and so on) -/
theorem common_part_closed {bt : List Builtin} {F : Facts} {v2 : Bool} (hc : Consistent F v2) {u1 u2 : U}
    (h1 : Faithful bt F v2 u1) (h2 : Faithful bt F v2 u2) {r1 : Nat} {p : List Nat} {r1' : Nat} (hr : ReachAt u1 r1 p r1') :
    ∀ r2, Corr u1 u2 r1 r2 → ∃ r2', ReachAt u2 r2 p r2' ∧ Corr u1 u2 r1' r2' := by
  induction hr with
  | refl r => intro r2 h; exact ⟨r2, .refl r2, h⟩
  | @step r r' r'' ob i p hob hs hi _ ih =>
    intro r2 h
    obtain ⟨ob1, ob2, e1, e2, hd⟩ := corr_step hc h1 h2 h
    rw [hob] at e1; cases e1
    rcases hd with ⟨k, _⟩ | ⟨_, hall⟩
    · exact absurd k hs
    · obtain ⟨x2, hx2, hcx⟩ := All2.get hall i r' hi
      obtain ⟨r2', hp, hcr⟩ := ih x2 hcx
      -- the counterpart was filled as well
      have hs2 : ob2.src ≠ none := by
        obtain ⟨⟨b, n, d1, d2⟩, ⟨_, _, hk1⟩, ⟨o2, ho2, hk2⟩⟩ := h
        rw [e2] at ho2; cases ho2
        rcases d1 with ⟨rfl, l1⟩ | ⟨rfl, y1, f1, t1, _⟩
        · rcases d2 with ⟨_, l2⟩ | ⟨hb, _⟩
          · exact filled_in_both h1.2 h2.2 l1 l2 hob e2 hs hk2
          · cases hb
        · -- a type parameter has no references: position `i` does not exist
          rw [hob] at f1; cases f1
          rw [crefs_typeParam t1] at hi; simp at hi
      exact ⟨r2', .step e2 hs2 hx2 hp, hcr⟩

theorem ReachAt.reach {u : U} {r : Nat} {p : List Nat} {r' : Nat} (h : ReachAt u r p r') : Reach u r r' := by
  induction h with
  | refl r => exact .refl r
  | step hob hs hi _ ih => exact .step hob hs (List.mem_of_getElem? hi) ih

theorem Reach.at {u : U} {r r' : Nat} (h : Reach u r r') : ∃ p, ReachAt u r p r' := by
  induction h with
  | refl r => exact ⟨[], .refl r⟩
  | step hob hs hm _ ih =>
    obtain ⟨p, hp⟩ := ih
    obtain ⟨i, hi⟩ := List.getElem?_of_mem hm
    exact ⟨i :: p, .step hob hs hi hp⟩

/-- … in particular everything reachable has a counterpart -/
theorem reachable_has_counterpart {bt : List Builtin} {F : Facts} {v2 : Bool} (hc : Consistent F v2) {u1 u2 : U}
    (h1 : Faithful bt F v2 u1) (h2 : Faithful bt F v2 u2) {r1 r1' r2 : Nat} (hr : Reach u1 r1 r1') (h : Corr u1 u2 r1 r2) :
    ∃ r2', Reach u2 r2 r2' ∧ Corr u1 u2 r1' r2' := by
  obtain ⟨p, hp⟩ := hr.at
  obtain ⟨r2', h3, h4⟩ := common_part_closed hc h1 h2 hp r2 h
  exact ⟨r2', h3.reach, h4⟩

end Gengo.WalkReach

import Gengo.Model.Loader
/-!
# The universe invariant of `walkType` on the full model (C06, C01, C11)

Two facts are maintained by every step of the model of `walkType`, of the declaration and package scans and
of the loaders, for v1 and v2 alike:

* **closed**: every reference stored in an object (element, key, underlying type, receiver, member, method,
  parameter, result, type parameter) points to an object that has a kind – nothing reachable is an
  unresolved placeholder.  This is what "mark the object, then fill it from its children" buys: a
  back-reference met during the fill already sees a kind.
* **canonical**: every such reference is the object registered in the type index under some name (or a
  type-parameter object, which is never taken from the universe), and a registered object carries the name
  it is registered under (or is a builtin registered under one of its spellings).  Hence two references to
  objects of the same name are references to one object.
-/
namespace Gengo.WalkInv
open Gengo Gengo.Universe

def refs (ob : Obj) : List Nat :=
  ob.elem.toList ++ ob.key.toList ++ ob.under.toList ++ ob.recv.toList ++
  ob.members.map (·.2.2.2) ++ ob.methods.map (·.2) ++ ob.params.map (·.2) ++ ob.results.map (·.2) ++
  ob.tparams.map (·.2)

def Known (u : U) (o : Nat) : Prop := ∃ ob : Obj, u.objs[o]? = some ob ∧ ob.kind ≠ .unknown

/-- registered in the type index, or a type-parameter object -/
def Reg (u : U) (o : Nat) : Prop :=
  (∃ n : Name, AL.lookup n u.types = some o) ∨ (∃ ob : Obj, u.objs[o]? = some ob ∧ ob.kind = .typeParam)

def GoodRef (u : U) (r : Nat) : Prop := Known u r ∧ Reg u r

/-- `ob` is the object of a builtin that `bt` lists under key `k` (under any of the spellings of its variable) -/
def IsBuiltinFor (bt : List Builtin) (k : Str) (ob : Obj) : Prop :=
  ∃ b ∈ bt, b.key = k ∧ ∃ b' ∈ bt, b'.var = b.var ∧ ob.name = ⟨[], b'.name⟩

def NameOK (bt : List Builtin) (u : U) : Prop :=
  ∀ (n : Name) (o : Nat), AL.lookup n u.types = some o → ∃ ob : Obj, u.objs[o]? = some ob ∧
    (ob.name = n ∨ (n.pkg = [] ∧ IsBuiltinFor bt n.name ob))

/-- the shared builtin objects are objects named after their variable -/
def BuiltinOK (bt : List Builtin) (u : U) : Prop :=
  ∀ (var : Str) (o : Nat), AL.lookup var u.builtinObjs = some o → ∃ ob : Obj, u.objs[o]? = some ob ∧ ∃ b' ∈ bt, b'.var = var ∧ ob.name = ⟨[], b'.name⟩

def Closed (u : U) : Prop := ∀ (o : Nat) (ob : Obj), u.objs[o]? = some ob → ∀ r ∈ refs ob, GoodRef u r

/-- the objects registered as functions, variables and constants -/
def declObjs (u : U) : List Nat := (u.funcs ++ u.vars ++ u.consts).map (·.2)

/-- … are declaration objects -/
def DeclOK (u : U) : Prop := ∀ o ∈ declObjs u, ∃ ob : Obj, u.objs[o]? = some ob ∧ ob.kind = .declarationOf

structure Inv (bt : List Builtin) (u : U) : Prop where
  nameOK : NameOK bt u
  closed : Closed u
  builtinOK : BuiltinOK bt u
  declOK : DeclOK u

/-- objects only ever appear, keep their name, keep a kind once they have one; index entries stay -/
structure Grows (u u' : U) : Prop where
  objs : ∀ (o : Nat) (ob : Obj), u.objs[o]? = some ob → ∃ ob' : Obj, u'.objs[o]? = some ob' ∧ ob'.name = ob.name ∧
    (ob.kind ≠ .unknown → ob'.kind = ob.kind)
  idx : ∀ (n : Name) (o : Nat), AL.lookup n u.types = some o → AL.lookup n u'.types = some o

theorem Grows.refl (u : U) : Grows u u := ⟨fun _ ob h => ⟨ob, h, rfl, fun _ => rfl⟩, fun _ _ h => h⟩

theorem Grows.trans {a b c : U} (h1 : Grows a b) (h2 : Grows b c) : Grows a c := by
  refine ⟨?_, fun n o h => h2.idx n o (h1.idx n o h)⟩
  intro o ob h
  obtain ⟨ob', h3, h4, h5⟩ := h1.objs o ob h
  obtain ⟨ob'', h6, h7, h8⟩ := h2.objs o ob' h3
  refine ⟨ob'', h6, h7.trans h4, fun hk => ?_⟩
  have := h5 hk
  rw [h8 (by rw [this]; exact hk), this]

theorem Known.mono {u u' : U} {o : Nat} (h : Known u o) (hg : Grows u u') : Known u' o := by
  obtain ⟨ob, h1, h2⟩ := h
  obtain ⟨ob', h3, _, h5⟩ := hg.objs o ob h1
  exact ⟨ob', h3, by rw [h5 h2]; exact h2⟩

theorem Reg.mono {u u' : U} {o : Nat} (h : Reg u o) (hg : Grows u u') : Reg u' o := by
  rcases h with ⟨n, hn⟩ | ⟨ob, h1, h2⟩
  · exact .inl ⟨n, hg.idx n o hn⟩
  · obtain ⟨ob', h3, _, h5⟩ := hg.objs o ob h1
    exact .inr ⟨ob', h3, by rw [h5 (by rw [h2]; decide), h2]⟩

theorem GoodRef.mono {u u' : U} {o : Nat} (h : GoodRef u o) (hg : Grows u u') : GoodRef u' o :=
  ⟨h.1.mono hg, h.2.mono hg⟩

theorem declOK_of_grows {u u' : U} (hg : Grows u u') (hd : declObjs u' = declObjs u) (h : DeclOK u) : DeclOK u' := by
  intro o ho
  rw [hd] at ho
  obtain ⟨ob, h1, h2⟩ := h o ho
  obtain ⟨ob', h3, _, h5⟩ := hg.objs o ob h1
  exact ⟨ob', h3, by rw [h5 (by rw [h2]; decide), h2]⟩

/-! ## the primitive steps -/

theorem package_objs (u : U) (p : Str) :
    (u.package p).objs = u.objs ∧ (u.package p).types = u.types ∧ (u.package p).builtinObjs = u.builtinObjs ∧
      declObjs (u.package p) = declObjs u := by
  unfold U.package; split <;> exact ⟨rfl, rfl, rfl, rfl⟩

theorem inv_of_same {bt : List Builtin} {u u' : U} (ho : u'.objs = u.objs) (ht : u'.types = u.types)
    (hb : u'.builtinObjs = u.builtinObjs) (hd : declObjs u' = declObjs u) (h : Inv bt u) :
    Inv bt u' ∧ Grows u u' := by
  have hg : Grows u u' := ⟨fun o ob hob => ⟨ob, by rw [ho]; exact hob, rfl, fun _ => rfl⟩, fun n o hl => by rw [ht]; exact hl⟩
  refine ⟨⟨?_, ?_, ?_, declOK_of_grows hg hd h.declOK⟩, ⟨?_, ?_⟩⟩
  · intro n o hl; rw [ht] at hl; obtain ⟨ob, h1, h2⟩ := h.nameOK n o hl; exact ⟨ob, by rw [ho]; exact h1, h2⟩
  · intro o ob hob r hr
    rw [ho] at hob
    obtain ⟨⟨ob', k1, k2⟩, hreg⟩ := h.closed o ob hob r hr
    refine ⟨⟨ob', by rw [ho]; exact k1, k2⟩, ?_⟩
    rcases hreg with ⟨n, hn⟩ | ⟨ob'', a, b⟩
    · exact .inl ⟨n, by rw [ht]; exact hn⟩
    · exact .inr ⟨ob'', by rw [ho]; exact a, b⟩
  · intro var o hl; rw [hb] at hl; obtain ⟨ob, h1, h2⟩ := h.builtinOK var o hl; exact ⟨ob, by rw [ho]; exact h1, h2⟩
  · intro o ob hob; exact ⟨ob, by rw [ho]; exact hob, rfl, fun _ => rfl⟩
  · intro n o hl; rw [ht]; exact hl

theorem getElem?_append_new {α} (l : List α) (x : α) (o : Nat) (y : α) (h : (l ++ [x])[o]? = some y) :
    l[o]? = some y ∨ (o = l.length ∧ y = x) := by
  by_cases hlt : o < l.length
  · left; simpa [List.getElem?_append_left hlt] using h
  · right
    have hge : l.length ≤ o := Nat.le_of_not_lt hlt
    rw [List.getElem?_append_right hge] at h
    by_cases h0 : o - l.length = 0
    · simp [h0] at h; exact ⟨by omega, h.symm⟩
    · obtain ⟨k, hk⟩ : ∃ k, o - l.length = k + 1 := ⟨o - l.length - 1, by omega⟩
      simp [hk] at h

theorem getElem?_append_old {α} (l : List α) (x : α) (o : Nat) (y : α) (h : l[o]? = some y) :
    (l ++ [x])[o]? = some y := by
  have hlt : o < l.length := (List.getElem?_eq_some_iff.mp h).1
  simp [List.getElem?_append_left hlt, h]

/-- appending an object without references -/
theorem newObj_inv {bt : List Builtin} {u : U} (ob0 : Obj) (hr : refs ob0 = []) (h : Inv bt u) :
    Inv bt (u.newObj ob0).1 ∧ Grows u (u.newObj ob0).1 ∧ (u.newObj ob0).1.objs[(u.newObj ob0).2]? = some ob0 ∧
      (u.newObj ob0).1.types = u.types ∧ (u.newObj ob0).1.builtinObjs = u.builtinObjs ∧
      declObjs (u.newObj ob0).1 = declObjs u ∧ (u.newObj ob0).2 = u.objs.length := by
  have hg : Grows u (u.newObj ob0).1 :=
    ⟨fun o ob hob => ⟨ob, getElem?_append_old _ _ _ _ hob, rfl, fun _ => rfl⟩, fun _ _ hl => hl⟩
  refine ⟨⟨?_, ?_, ?_, declOK_of_grows hg rfl h.declOK⟩, hg, by simp [U.newObj], rfl, rfl, rfl, rfl⟩
  · intro n o hl
    obtain ⟨ob, h1, h2⟩ := h.nameOK n o hl
    exact ⟨ob, getElem?_append_old _ _ _ _ h1, h2⟩
  · intro o ob hob r hrr
    rcases getElem?_append_new _ _ _ _ hob with hold | ⟨_, rfl⟩
    · exact (h.closed o ob hold r hrr).mono hg
    · rw [hr] at hrr; cases hrr
  · intro var o hl
    obtain ⟨ob, h1, h2⟩ := h.builtinOK var o hl
    exact ⟨ob, getElem?_append_old _ _ _ _ h1, h2⟩

theorem lookup_cons_ne {α β} [DecidableEq α] (k k' : α) (v : β) (m : List (α × β)) (h : k' ≠ k) :
    AL.lookup k ((k', v) :: m) = AL.lookup k m := by simp [AL.lookup, h]

theorem lookup_cons_self {α β} [DecidableEq α] (k : α) (v : β) (m : List (α × β)) :
    AL.lookup k ((k, v) :: m) = some v := by simp [AL.lookup]

/-- registering an existing or new object under a name that was free (and possibly recording it as the shared
object of a builtin variable) -/
theorem register_inv {bt : List Builtin} {u : U} (n : Name) (o : Nat) (ob : Obj) (hfree : AL.lookup n u.types = none)
    (hob : u.objs[o]? = some ob)
    (hname : ob.name = n ∨ (n.pkg = [] ∧ IsBuiltinFor bt n.name ob))
    (bo : List (Str × Nat)) (hbo : ∀ var x, AL.lookup var bo = some x →
      AL.lookup var u.builtinObjs = some x ∨ (x = o ∧ ∃ b' ∈ bt, b'.var = var ∧ ob.name = ⟨[], b'.name⟩))
    (h : Inv bt u) :
    Inv bt { u with types := (n, o) :: u.types, builtinObjs := bo } ∧
      Grows u { u with types := (n, o) :: u.types, builtinObjs := bo } := by
  have hg : Grows u { u with types := (n, o) :: u.types, builtinObjs := bo } := by
    refine ⟨fun x obx hx => ⟨obx, hx, rfl, fun _ => rfl⟩, ?_⟩
    intro m x hl
    by_cases hm : n = m
    · subst hm; rw [hfree] at hl; cases hl
    · show AL.lookup m ((n, o) :: u.types) = some x
      rw [lookup_cons_ne m n o u.types hm]; exact hl
  refine ⟨⟨?_, ?_, ?_, declOK_of_grows hg rfl h.declOK⟩, hg⟩
  · intro m x hl
    by_cases hm : n = m
    · subst hm
      have : AL.lookup n ((n, o) :: u.types) = some x := hl
      rw [lookup_cons_self] at this
      cases this
      exact ⟨ob, hob, hname⟩
    · have : AL.lookup m ((n, o) :: u.types) = some x := hl
      rw [lookup_cons_ne m n o u.types hm] at this
      exact h.nameOK m x this
  · intro x obx hx r hr
    exact (h.closed x obx hx r hr).mono hg
  · intro var x hl
    rcases hbo var x hl with hold | ⟨rfl, hnew⟩
    · exact h.builtinOK var x hold
    · exact ⟨ob, hob, hnew⟩

/-- `u.Type(n)`: the invariant is kept, the universe only grows, and the result is registered under `n` -/
theorem type_inv {bt : List Builtin} {u : U} (n : Name) (h : Inv bt u) :
    Inv bt (U.type bt u n).1 ∧ Grows u (U.type bt u n).1 ∧
      AL.lookup n (U.type bt u n).1.types = some (U.type bt u n).2 := by
  unfold U.type
  cases hl : AL.lookup n u.types with
  | some o => exact ⟨h, Grows.refl _, hl⟩
  | none =>
    simp only
    obtain ⟨hpo, hpt, hpb, hpd⟩ := package_objs u n.pkg
    obtain ⟨hp, hgp⟩ := inv_of_same hpo hpt hpb hpd h
    have hfree : AL.lookup n (u.package n.pkg).types = none := by rw [hpt]; exact hl
    cases hb : (if n.pkg.isEmpty = true then bt.find? (fun b => b.key = n.name) else none) with
    | none =>
      simp only
      obtain ⟨h1, g1, o1, t1, b1, _, _⟩ := newObj_inv (u := u.package n.pkg) { name := n } (by simp [refs]) hp
      have hfree1 : AL.lookup n ((u.package n.pkg).newObj { name := n }).1.types = none := by rw [t1]; exact hfree
      obtain ⟨h2, g2⟩ := register_inv n _ _ hfree1 o1 (.inl rfl) ((u.package n.pkg).newObj { name := n }).1.builtinObjs
        (fun _ _ hx => .inl hx) h1
      exact ⟨h2, hgp.trans (g1.trans g2), lookup_cons_self _ _ _⟩
    | some b =>
      simp only
      have hbt : n.pkg = [] ∧ b ∈ bt ∧ b.key = n.name := by
        by_cases he : n.pkg.isEmpty = true
        · simp only [he, if_true] at hb
          exact ⟨by simpa using he, List.mem_of_find?_eq_some hb, by simpa using List.find?_some hb⟩
        · simp [he] at hb
      cases hbo : AL.lookup b.var (u.package n.pkg).builtinObjs with
      | some o =>
        simp only
        obtain ⟨ob, k1, b', kb, kv, kn⟩ := hp.builtinOK b.var o hbo
        obtain ⟨h2, g2⟩ := register_inv n o ob hfree k1 (.inr ⟨hbt.1, b, hbt.2.1, hbt.2.2, b', kb, kv, kn⟩)
          (u.package n.pkg).builtinObjs (fun _ _ hx => .inl hx) hp
        exact ⟨h2, hgp.trans g2, lookup_cons_self _ _ _⟩
      | none =>
        simp only
        obtain ⟨h1, g1, o1, t1, b1, _, _⟩ := newObj_inv (u := u.package n.pkg) { name := ⟨[], b.name⟩, kind := b.kind } (by simp [refs]) hp
        have hfree1 : AL.lookup n ((u.package n.pkg).newObj { name := ⟨[], b.name⟩, kind := b.kind }).1.types = none := by
          rw [t1]; exact hfree
        obtain ⟨h2, g2⟩ := register_inv n _ _ hfree1 o1 (.inr ⟨hbt.1, b, hbt.2.1, hbt.2.2, b, hbt.2.1, rfl, rfl⟩)
          ((b.var, ((u.package n.pkg).newObj { name := ⟨[], b.name⟩, kind := b.kind }).2) ::
            ((u.package n.pkg).newObj { name := ⟨[], b.name⟩, kind := b.kind }).1.builtinObjs)
          (fun var x hx => by
            by_cases hv : b.var = var
            · subst hv
              rw [lookup_cons_self] at hx
              cases hx
              exact .inr ⟨rfl, b, hbt.2.1, rfl, rfl⟩
            · rw [lookup_cons_ne var b.var _ _ hv] at hx
              exact .inl hx) h1
        exact ⟨h2, hgp.trans (g1.trans g2), lookup_cons_self _ _ _⟩

/-! ## `modify` -/

theorem modify_get_eq {u : U} {o : Nat} {f : Obj → Obj} {ob : Obj} (h : u.objs[o]? = some ob) :
    (u.modify o f).objs[o]? = some (f ob) := by
  simp [U.modify, h]

theorem modify_get_ne {u : U} {o x : Nat} {f : Obj → Obj} (h : o ≠ x) : (u.modify o f).objs[x]? = u.objs[x]? := by
  simp [U.modify, List.getElem?_modify_ne _ _ h]

/-- an update of one object that keeps its name, keeps a kind it has, and adds only good references -/
def GoodUpdate (u : U) (o : Nat) (f : Obj → Obj) : Prop :=
  ∀ ob : Obj, u.objs[o]? = some ob → (f ob).name = ob.name ∧ (ob.kind ≠ .unknown → (f ob).kind = ob.kind) ∧
    ∀ r ∈ refs (f ob), r ∈ refs ob ∨ GoodRef u r

theorem modify_inv {bt : List Builtin} {u : U} {o : Nat} {f : Obj → Obj} (hf : GoodUpdate u o f) (h : Inv bt u) :
    Inv bt (u.modify o f) ∧ Grows u (u.modify o f) := by
  have hg : Grows u (u.modify o f) := by
    refine ⟨?_, fun _ _ hl => hl⟩
    intro x ob hx
    by_cases hox : o = x
    · subst hox
      exact ⟨f ob, modify_get_eq hx, (hf ob hx).1, (hf ob hx).2.1⟩
    · exact ⟨ob, by rw [modify_get_ne hox]; exact hx, rfl, fun _ => rfl⟩
  refine ⟨⟨?_, ?_, ?_, declOK_of_grows hg rfl h.declOK⟩, hg⟩
  · intro n x hl
    obtain ⟨ob, h1, h2⟩ := h.nameOK n x hl
    obtain ⟨ob', h3, h4, _⟩ := hg.objs x ob h1
    refine ⟨ob', h3, ?_⟩
    rcases h2 with h2 | ⟨hp, b, hb, hk, b', hb', hv, hn⟩
    · exact .inl (h4.trans h2)
    · exact .inr ⟨hp, b, hb, hk, b', hb', hv, h4.trans hn⟩
  · intro x obx hx r hr
    by_cases hox : o = x
    · subst hox
      cases h0 : u.objs[o]? with
      | none =>
        have : (u.modify o f).objs[o]? = none := by simp [U.modify, h0]
        rw [this] at hx; cases hx
      | some ob0 =>
        rw [modify_get_eq h0] at hx
        cases hx
        rcases (hf ob0 h0).2.2 r hr with hold | hnew
        · exact (h.closed o ob0 h0 r hold).mono hg
        · exact hnew.mono hg
    · rw [modify_get_ne hox] at hx
      exact (h.closed x obx hx r hr).mono hg
  · intro var x hl
    obtain ⟨ob, h1, b', hb', hv, hn⟩ := h.builtinOK var x hl
    obtain ⟨ob', h3, h4, _⟩ := hg.objs x ob h1
    exact ⟨ob', h3, b', hb', hv, h4.trans hn⟩

/-! ## setters, `runKids`, `fill`, the methods phase -/

theorem mem_insert_values {α} [DecidableEq α] (k : α) (v : Nat) : ∀ (m : List (α × Nat)) (r : Nat),
    r ∈ (AL.insert k v m).map (·.2) → r = v ∨ r ∈ m.map (·.2) := by
  intro m
  induction m with
  | nil => intro r h; simp [AL.insert] at h; exact .inl h
  | cons hd tl ih =>
    intro r h
    obtain ⟨k', v'⟩ := hd
    simp only [AL.insert] at h
    split at h
    · simp only [List.map_cons, List.mem_cons] at h
      rcases h with h | h
      · exact .inl h
      · exact .inr (by simp [h])
    · simp only [List.map_cons, List.mem_cons] at h
      rcases h with h | h
      · exact .inr (by simp [h])
      · rcases ih r h with h | h
        · exact .inl h
        · exact .inr (by simp [h])

theorem mem_refs_iff (ob : Obj) (r : Nat) : r ∈ refs ob ↔
    (ob.elem = some r ∨ ob.key = some r ∨ ob.under = some r ∨ ob.recv = some r ∨ r ∈ ob.members.map (·.2.2.2) ∨
      r ∈ ob.methods.map (·.2) ∨ r ∈ ob.params.map (·.2) ∨ r ∈ ob.results.map (·.2) ∨ r ∈ ob.tparams.map (·.2)) := by
  simp only [refs, List.mem_append, Option.mem_toList, or_assoc]

/-- storing a walked child in its owner adds at most that child as a reference -/
theorem setter_refs (set : Setter) (ob : Obj) (x r : Nat) (h : r ∈ refs (set.apply ob x)) : r ∈ refs ob ∨ r = x := by
  rw [mem_refs_iff] at h
  rw [mem_refs_iff]
  cases set <;> simp only [Setter.apply] at h
  case elem =>
    rcases h with h | h | h | h | h | h | h | h | h
    · right; exact (Option.some.inj h).symm
    all_goals simp [h]
  case key =>
    rcases h with h | h | h | h | h | h | h | h | h
    · simp [h]
    · right; exact (Option.some.inj h).symm
    all_goals simp [h]
  case under =>
    rcases h with h | h | h | h | h | h | h | h | h
    · simp [h]
    · simp [h]
    · right; exact (Option.some.inj h).symm
    all_goals simp [h]
  case recv =>
    rcases h with h | h | h | h | h | h | h | h | h
    · simp [h]
    · simp [h]
    · simp [h]
    · right; exact (Option.some.inj h).symm
    all_goals simp [h]
  case member n e t =>
    rcases h with h | h | h | h | h | h | h | h | h
    · simp [h]
    · simp [h]
    · simp [h]
    · simp [h]
    · simp only [List.map_append, List.map_cons, List.map_nil, List.mem_append, List.mem_singleton] at h
      rcases h with h | h
      · exact .inl (.inr (.inr (.inr (.inr (.inl h)))))
      · exact .inr h
    all_goals simp [h]
  case param n =>
    rcases h with h | h | h | h | h | h | h | h | h
    · simp [h]
    · simp [h]
    · simp [h]
    · simp [h]
    · simp [h]
    · simp [h]
    · simp only [List.map_append, List.map_cons, List.map_nil, List.mem_append, List.mem_singleton] at h
      rcases h with h | h
      · exact .inl (.inr (.inr (.inr (.inr (.inr (.inr (.inl h)))))))
      · exact .inr h
    all_goals simp [h]
  case result n =>
    rcases h with h | h | h | h | h | h | h | h | h
    · simp [h]
    · simp [h]
    · simp [h]
    · simp [h]
    · simp [h]
    · simp [h]
    · simp [h]
    · simp only [List.map_append, List.map_cons, List.map_nil, List.mem_append, List.mem_singleton] at h
      rcases h with h | h
      · exact .inl (.inr (.inr (.inr (.inr (.inr (.inr (.inr (.inl h))))))))
      · exact .inr h
    · simp [h]
  case method n =>
    rcases h with h | h | h | h | h | h | h | h | h
    · simp [h]
    · simp [h]
    · simp [h]
    · simp [h]
    · simp [h]
    · rcases mem_insert_values n x ob.methods r h with h | h
      · exact .inr h
      · exact .inl (.inr (.inr (.inr (.inr (.inr (.inl h))))))
    all_goals simp [h]
  case tparam n =>
    rcases h with h | h | h | h | h | h | h | h | h
    · simp [h]
    · simp [h]
    · simp [h]
    · simp [h]
    · simp [h]
    · simp [h]
    · simp [h]
    · simp [h]
    · rcases mem_insert_values n x ob.tparams r h with h | h
      · exact .inr h
      · exact .inl (.inr (.inr (.inr (.inr (.inr (.inr (.inr (.inr h))))))))
  case drop => exact .inl h

theorem setter_meta (set : Setter) (ob : Obj) (x : Nat) : (set.apply ob x).name = ob.name ∧ (set.apply ob x).kind = ob.kind := by
  cases set <;> exact ⟨rfl, rfl⟩

theorem setter_goodUpdate (u : U) (o : Nat) (set : Setter) (oc : Nat) (hoc : GoodRef u oc) :
    GoodUpdate u o (fun ob => set.apply ob oc) := by
  intro ob _
  refine ⟨(setter_meta set ob oc).1, fun _ => (setter_meta set ob oc).2, ?_⟩
  intro r hr
  rcases setter_refs set ob oc r hr with h | h
  · exact .inl h
  · subst h; exact .inr hoc

/-- what a successful walk guarantees -/
structure Post (bt : List Builtin) (u u' : U) (o : Nat) : Prop where
  inv : Inv bt u'
  grows : Grows u u'
  good : GoodRef u' o

def WalkOK (bt : List Builtin) (w : U → Nat → Option Name → Option (U × Nat)) : Prop :=
  ∀ u c un u' oc, Inv bt u → w u c un = some (u', oc) → Post bt u u' oc

theorem runKids_inv {bt : List Builtin} {w : U → Nat → Option Name → Option (U × Nat)} (hw : WalkOK bt w) (o : Nat) :
    ∀ (kids : List (Nat × Option Name × Setter)) (u u' : U), Inv bt u → runKids w o u kids = some u' →
      Inv bt u' ∧ Grows u u' := by
  intro kids
  induction kids with
  | nil => intro u u' h hr; simp only [runKids, Option.some.injEq] at hr; subst hr; exact ⟨h, Grows.refl _⟩
  | cons k ks ih =>
    intro u u' h hr
    obtain ⟨c, un, set⟩ := k
    simp only [runKids] at hr
    cases hwc : w u c un with
    | none => simp [hwc] at hr
    | some p =>
      obtain ⟨u1, oc⟩ := p
      simp only [hwc] at hr
      have p1 := hw u c un u1 oc h hwc
      obtain ⟨h2, g2⟩ := modify_inv (o := o) (setter_goodUpdate u1 o set oc p1.good) p1.inv
      obtain ⟨h3, g3⟩ := ih _ _ h2 hr
      exact ⟨h3, p1.grows.trans (g2.trans g3)⟩

theorem kind_of_obj {u : U} {o : Nat} {ob : Obj} (h : u.objs[o]? = some ob) : u.kind o = ob.kind := by
  simp [U.kind, h]

theorem markFields_meta (gn : GNode) (ob : Obj) :
    (markFields gn ob).name = ob.name ∧ (markFields gn ob).kind = ob.kind ∧ refs (markFields gn ob) = refs ob := by
  cases gn <;> exact ⟨rfl, rfl, rfl⟩

/-- marking an object that has no kind yet -/
theorem mark_goodUpdate (u : U) (o : Nat) (f : Obj → Obj) (hunk : u.kind o = .unknown)
    (hf : ∀ ob, (f ob).name = ob.name ∧ refs (f ob) = refs ob) : GoodUpdate u o f := by
  intro ob hob
  refine ⟨(hf ob).1, fun hk => ?_, fun r hr => .inl (by rw [(hf ob).2] at hr; exact hr)⟩
  rw [kind_of_obj hob] at hunk
  exact absurd hunk hk

theorem fill_inv {bt : List Builtin} {w : U → Nat → Option Name → Option (U × Nat)} (hw : WalkOK bt w)
    (u : U) (n : Name) (g : Nat) (gn : GNode) (K : Kind) (hK : K ≠ .unknown)
    (kids : List (Nat × Option Name × Setter)) (u' : U) (o : Nat) (h : Inv bt u)
    (hf : fill bt w u n g gn K kids = some (u', o)) : Post bt u u' o := by
  unfold fill at hf
  obtain ⟨h1, g1, l1⟩ := type_inv (bt := bt) n h
  obtain ⟨ob, hob, _⟩ := h1.nameOK n _ l1
  by_cases hk : (U.type bt u n).1.kind (U.type bt u n).2 ≠ .unknown
  · simp only [hk, ne_eq, not_false_eq_true, if_true, Option.some.injEq] at hf
    have : (U.type bt u n) = (u', o) := hf
    have e1 : (U.type bt u n).1 = u' := by rw [this]
    have e2 : (U.type bt u n).2 = o := by rw [this]
    rw [e1] at h1 g1 l1 hob hk; rw [e2] at l1 hob hk
    exact ⟨h1, g1, ⟨ob, hob, by rw [kind_of_obj hob] at hk; exact hk⟩, .inl ⟨n, l1⟩⟩
  · simp only [hk, if_false] at hf
    have hunk : (U.type bt u n).1.kind (U.type bt u n).2 = .unknown := by simpa using hk
    obtain ⟨h2, g2⟩ := modify_inv (o := (U.type bt u n).2)
      (mark_goodUpdate _ _ (fun ob => markFields gn { ob with kind := K, src := some g }) hunk
        (fun ob => ⟨(markFields_meta gn _).1, (markFields_meta gn _).2.2⟩)) h1
    cases hr : runKids w (U.type bt u n).2 ((U.type bt u n).1.modify (U.type bt u n).2 (fun ob => markFields gn { ob with kind := K, src := some g })) kids with
    | none => simp [hr] at hf
    | some u3 =>
      simp only [hr, Option.some.injEq, Prod.mk.injEq] at hf
      obtain ⟨rfl, rfl⟩ := hf
      obtain ⟨h3, g3⟩ := runKids_inv hw _ kids _ _ h2 hr
      refine ⟨h3, g1.trans (g2.trans g3), ?_⟩
      have hknown : Known ((U.type bt u n).1.modify (U.type bt u n).2 (fun ob => markFields gn { ob with kind := K, src := some g })) (U.type bt u n).2 :=
        ⟨_, modify_get_eq hob, by rw [(markFields_meta gn _).2.1]; exact hK⟩
      exact ⟨hknown.mono g3, (Reg.mono (.inl ⟨n, l1⟩) (g2.trans g3))⟩

/-- recording the ghost fields of the methods phase changes nothing the invariant looks at -/
theorem ghost_goodUpdate (u : U) (o : Nat) (g : Nat) (b : Bool) :
    GoodUpdate u o (fun ob => { ob with nsrc := some g, nskip := b }) :=
  fun _ _ => ⟨rfl, fun _ => rfl, fun _ hr => .inl hr⟩

theorem addMethods_inv {bt : List Builtin} {w : U → Nat → Option Name → Option (U × Nat)} (hw : WalkOK bt w) (v2 : Bool)
    (u0 u : U) (o : Nat) (ms : List GMethod) {g : Nat} (u' : U) (o' : Nat) (p : Post bt u0 u o)
    (hf : addMethods v2 w u o ms g = some (u', o')) : Post bt u0 u' o' := by
  unfold addMethods at hf
  split at hf
  · obtain ⟨h2, g2⟩ := modify_inv (o := o) (ghost_goodUpdate u o g false) p.inv
    cases hr : runKids w o (u.modify o (fun ob => { ob with nsrc := some g, nskip := false })) (methodKids v2 ms) with
    | none => simp [hr] at hf
    | some u3 =>
      simp only [hr, Option.some.injEq, Prod.mk.injEq] at hf
      obtain ⟨rfl, rfl⟩ := hf
      obtain ⟨h3, g3⟩ := runKids_inv hw o _ _ _ h2 hr
      exact ⟨h3, p.grows.trans (g2.trans g3), p.good.mono (g2.trans g3)⟩
  · obtain ⟨h2, g2⟩ := modify_inv (o := o) (ghost_goodUpdate u o g true) p.inv
    simp only [Option.some.injEq, Prod.mk.injEq] at hf
    obtain ⟨rfl, rfl⟩ := hf
    exact ⟨h2, p.grows.trans g2, p.good.mono g2⟩

/-! ## `walkType` -/

theorem shape_kind_ne (v2 : Bool) (gn : GNode) (K : Kind) (kids : List (Nat × Option Name × Setter))
    (h : shape v2 gn = some (K, kids)) : K ≠ .unknown := by
  cases gn <;> simp only [shape, Option.some.injEq, Prod.mk.injEq, reduceCtorEq] at h <;>
    (obtain ⟨rfl, _⟩ := h; decide)

/-- the result of `u.Type(n)` when it already has a kind -/
theorem type_known_post {bt : List Builtin} {u : U} (n : Name) (h : Inv bt u)
    (hk : (U.type bt u n).1.kind (U.type bt u n).2 ≠ .unknown) : Post bt u (U.type bt u n).1 (U.type bt u n).2 := by
  obtain ⟨h1, g1, l1⟩ := type_inv (bt := bt) n h
  obtain ⟨ob, hob, _⟩ := h1.nameOK n _ l1
  exact ⟨h1, g1, ⟨ob, hob, by rw [kind_of_obj hob] at hk; exact hk⟩, .inl ⟨n, l1⟩⟩

theorem Post.trans {bt : List Builtin} {a b c : U} {o : Nat} (g : Grows a b) (p : Post bt b c o) : Post bt a c o :=
  ⟨p.inv, g.trans p.grows, p.good⟩

/-- **walk_keeps_universe_closed_and_canonical**: `walkType` (v1 and v2, any call depth) keeps the invariant,
only ever grows the universe, and returns an object that has a kind and is registered (or a type parameter) -/
theorem walk_inv (bt : List Builtin) (F : Facts) (v2 : Bool) :
    ∀ fuel, WalkOK bt (fun u c un => walk bt F v2 fuel u c un) := by
  intro fuel
  induction fuel with
  | zero => intro u c un u' oc _ hw; simp [walk] at hw
  | succ fuel ih =>
    intro u g useName u' o h hw
    simp only [walk] at hw
    cases hn : F.node g with
    | alias tgt => simp only [hn] at hw; exact ih u tgt none u' o h hw
    | basic nm => simp only [hn] at hw; exact fill_inv ih u _ g _ .unsupported (by decide) [] u' o h hw
    | tparam c =>
      simp only [hn, Option.some.injEq] at hw
      obtain ⟨h1, g1, o1, _, _, _, _⟩ := newObj_inv (bt := bt) (u := u)
        { name := useName.getD (nameOf v2 (F.str g)), kind := .typeParam, src := some g } (by simp [refs]) h
      have e : u.newObj { name := useName.getD (nameOf v2 (F.str g)), kind := .typeParam, src := some g } = (u', o) := hw
      rw [e] at h1 g1 o1
      exact ⟨h1, g1, ⟨_, o1, by simp⟩, .inr ⟨_, o1, rfl⟩⟩
    | named und ms tps origUnd =>
      simp only [hn] at hw
      by_cases ha : isAliasUnder (F.node und) = true
      · simp only [ha, if_true] at hw
        by_cases hk : (U.type bt u (nameOf v2 (F.str g))).1.kind (U.type bt u (nameOf v2 (F.str g))).2 ≠ .unknown
        · simp only [hk, ne_eq, not_false_eq_true, if_true, Option.some.injEq] at hw
          have := type_known_post (bt := bt) (nameOf v2 (F.str g)) h hk
          rw [hw] at this; exact this
        · simp only [hk, if_false] at hw
          have hunk : (U.type bt u (nameOf v2 (F.str g))).1.kind (U.type bt u (nameOf v2 (F.str g))).2 = .unknown := by simpa using hk
          obtain ⟨h1, g1, l1⟩ := type_inv (bt := bt) (nameOf v2 (F.str g)) h
          obtain ⟨ob, hob, _⟩ := h1.nameOK _ _ l1
          obtain ⟨h2, g2⟩ := modify_inv (o := (U.type bt u (nameOf v2 (F.str g))).2)
            (mark_goodUpdate _ _ (fun ob => { ob with kind := .alias, src := some g }) hunk (fun ob => ⟨rfl, rfl⟩)) h1
          cases hr : runKids (fun u c un => walk bt F v2 fuel u c un) (U.type bt u (nameOf v2 (F.str g))).2
              ((U.type bt u (nameOf v2 (F.str g))).1.modify (U.type bt u (nameOf v2 (F.str g))).2 (fun ob => { ob with kind := .alias, src := some g }))
              [(und, none, .under)] with
          | none => simp [hr] at hw
          | some u3 =>
            simp only [hr] at hw
            obtain ⟨h3, g3⟩ := runKids_inv ih _ _ _ _ h2 hr
            have hknown : Known ((U.type bt u (nameOf v2 (F.str g))).1.modify (U.type bt u (nameOf v2 (F.str g))).2 (fun ob => { ob with kind := .alias, src := some g }))
                (U.type bt u (nameOf v2 (F.str g))).2 := ⟨_, modify_get_eq hob, by simp⟩
            exact addMethods_inv ih v2 u u3 _ ms u' o
              ⟨h3, g1.trans (g2.trans g3), hknown.mono g3, Reg.mono (.inl ⟨_, l1⟩) (g2.trans g3)⟩ hw
      · simp only [ha, Bool.false_eq_true, if_false] at hw
        by_cases hs : (v2 && isStructOrIface (F.node und)) = true
        · simp only [hs, if_true] at hw
          cases hr0 : runKids (fun u c un => walk bt F v2 fuel u c un) 0 u (tps.map (fun tp => (tp.2, none, Setter.drop))) with
          | none => simp [hr0] at hw
          | some u1 =>
            simp only [hr0] at hw
            obtain ⟨h1, g1⟩ := runKids_inv ih 0 _ _ _ h hr0
            generalize hnm : (if tps.isEmpty = true then nameOf v2 (F.str g) else genericName (nameOf v2 (F.str g)) tps) = n' at hw
            by_cases hk : (U.type bt u1 n').1.kind (U.type bt u1 n').2 ≠ .unknown
            · simp only [hk, ne_eq, not_false_eq_true, if_true, Option.some.injEq] at hw
              have := type_known_post (bt := bt) n' h1 hk
              rw [hw] at this; exact Post.trans g1 this
            · simp only [hk, if_false] at hw
              obtain ⟨h2, g2, _⟩ := type_inv (bt := bt) n' h1
              cases hw2 : walk bt F v2 fuel (U.type bt u1 n').1 origUnd (some n') with
              | none => simp [hw2] at hw
              | some p =>
                obtain ⟨u3, o3⟩ := p
                simp only [hw2] at hw
                have p3 := ih _ _ _ _ _ h2 hw2
                obtain ⟨h4, g4⟩ := modify_inv (o := o3) (f := fun ob => { ob with tparams := [] })
                  (fun ob _ => ⟨rfl, fun _ => rfl, fun r hr => .inl (by
                    simp only [refs, List.map_nil, List.append_nil, List.mem_append] at hr ⊢
                    exact .inl hr)⟩) p3.inv
                cases hr5 : runKids (fun u c un => walk bt F v2 fuel u c un) o3 (u3.modify o3 (fun ob => { ob with tparams := [] }))
                    (tps.map (fun tp => (tp.2, none, Setter.tparam tp.1))) with
                | none => simp [hr5] at hw
                | some u5 =>
                  simp only [hr5] at hw
                  obtain ⟨h5, g5⟩ := runKids_inv ih o3 _ _ _ h4 hr5
                  exact addMethods_inv ih v2 u u5 o3 ms u' o
                    ⟨h5, g1.trans (g2.trans (p3.grows.trans (g4.trans g5))), p3.good.mono (g4.trans g5)⟩ hw
        · simp only [hs, Bool.false_eq_true, if_false] at hw
          by_cases hk : (U.type bt u (nameOf v2 (F.str g))).1.kind (U.type bt u (nameOf v2 (F.str g))).2 ≠ .unknown
          · simp only [hk, ne_eq, not_false_eq_true, if_true, Option.some.injEq] at hw
            have := type_known_post (bt := bt) (nameOf v2 (F.str g)) h hk
            rw [hw] at this; exact this
          · simp only [hk, if_false] at hw
            obtain ⟨h2, g2, _⟩ := type_inv (bt := bt) (nameOf v2 (F.str g)) h
            cases hw2 : walk bt F v2 fuel (U.type bt u (nameOf v2 (F.str g))).1 und (some (nameOf v2 (F.str g))) with
            | none => simp [hw2] at hw
            | some p =>
              obtain ⟨u3, o3⟩ := p
              simp only [hw2] at hw
              have p3 := ih _ _ _ _ _ h2 hw2
              exact addMethods_inv ih v2 u u3 o3 ms u' o ⟨p3.inv, g2.trans p3.grows, p3.good⟩ hw
    | pointer e =>
      simp only [hn] at hw
      exact fill_inv ih u _ g _ _ (by decide) _ u' o h hw
    | slice e =>
      simp only [hn] at hw
      exact fill_inv ih u _ g _ _ (by decide) _ u' o h hw
    | array len e =>
      simp only [hn] at hw
      exact fill_inv ih u _ g _ _ (by decide) _ u' o h hw
    | map k e =>
      simp only [hn] at hw
      exact fill_inv ih u _ g _ _ (by decide) _ u' o h hw
    | chan e =>
      simp only [hn] at hw
      exact fill_inv ih u _ g _ _ (by decide) _ u' o h hw
    | struct fs =>
      simp only [hn] at hw
      exact fill_inv ih u _ g _ _ (by decide) _ u' o h hw
    | sig ps rs va recv =>
      simp only [hn] at hw
      exact fill_inv ih u _ g _ _ (by decide) _ u' o h hw
    | iface ms =>
      simp only [hn] at hw
      exact fill_inv ih u _ g _ _ (by decide) _ u' o h hw
    | other =>
      simp only [hn] at hw
      exact fill_inv ih u _ g _ _ (by decide) _ u' o h hw

/-! ## where the result of a walk is registered -/

/-- `fill` returns the object registered under the name it was given -/
theorem fill_idx {bt : List Builtin} {w : U → Nat → Option Name → Option (U × Nat)} (hw : WalkOK bt w)
    (u : U) (n : Name) (g : Nat) (gn : GNode) (K : Kind)
    (kids : List (Nat × Option Name × Setter)) (u' : U) (o : Nat) (h : Inv bt u)
    (hf : fill bt w u n g gn K kids = some (u', o)) : AL.lookup n u'.types = some o := by
  unfold fill at hf
  obtain ⟨h1, g1, l1⟩ := type_inv (bt := bt) n h
  by_cases hk : (U.type bt u n).1.kind (U.type bt u n).2 ≠ .unknown
  · simp only [hk, ne_eq, not_false_eq_true, if_true, Option.some.injEq] at hf
    have e1 : (U.type bt u n).1 = u' := by rw [hf]
    have e2 : (U.type bt u n).2 = o := by rw [hf]
    rw [e1, e2] at l1; exact l1
  · simp only [hk, if_false] at hf
    have hunk : (U.type bt u n).1.kind (U.type bt u n).2 = .unknown := by simpa using hk
    obtain ⟨h2, g2⟩ := modify_inv (o := (U.type bt u n).2)
      (mark_goodUpdate _ _ (fun ob => markFields gn { ob with kind := K, src := some g }) hunk
        (fun ob => ⟨(markFields_meta gn _).1, (markFields_meta gn _).2.2⟩)) h1
    cases hr : runKids w (U.type bt u n).2 ((U.type bt u n).1.modify (U.type bt u n).2 (fun ob => markFields gn { ob with kind := K, src := some g })) kids with
    | none => simp [hr] at hf
    | some u3 =>
      simp only [hr, Option.some.injEq, Prod.mk.injEq] at hf
      obtain ⟨rfl, rfl⟩ := hf
      obtain ⟨_, g3⟩ := runKids_inv hw _ kids _ _ h2 hr
      exact g3.idx _ _ (g2.idx _ _ l1)

theorem addMethods_snd {w : U → Nat → Option Name → Option (U × Nat)} (v2 : Bool) (u : U) (o : Nat) (ms : List GMethod) {g : Nat}
    (u' : U) (o' : Nat) (hf : addMethods v2 w u o ms g = some (u', o')) : o' = o := by
  unfold addMethods at hf
  split at hf
  · cases hr : runKids w o (u.modify o (fun ob => { ob with nsrc := some g, nskip := false })) (methodKids v2 ms) with
    | none => simp [hr] at hf
    | some u3 => simp only [hr, Option.some.injEq, Prod.mk.injEq] at hf; exact hf.2.symm
  · simp only [Option.some.injEq, Prod.mk.injEq] at hf; exact hf.2.symm

/-- **declared_type_is_registered**: walking a non-generic named type (whose underlying node is an unnamed type
node, as go/types guarantees) returns the object registered under the type's own name -/
theorem walk_named_idx (bt : List Builtin) (F : Facts) (v2 : Bool) (fuel : Nat) (u : U) (g : Nat) (un : Option Name)
    (und : Nat) (ms : List GMethod) (tps : List (Str × Nat)) (origUnd : Nat) (hn : F.node g = .named und ms tps origUnd)
    (hund : isAliasUnder (F.node und) = true ∨ ∃ K kids, shape v2 (F.node und) = some (K, kids))
    (horig : isAliasUnder (F.node und) = false → (v2 && isStructOrIface (F.node und)) = true → ∃ K kids, shape v2 (F.node origUnd) = some (K, kids))
    (u' : U) (o : Nat) (h : Inv bt u) (hw : walk bt F v2 (fuel + 1) u g un = some (u', o)) :
    AL.lookup (regName F v2 g) u'.types = some o := by
  have ih := walk_inv bt F v2 fuel
  simp only [walk, hn] at hw
  unfold regName
  simp only [hn]
  -- a walk of an unnamed type node under a given name returns the object registered under that name
  have shapeWalk : ∀ (c : Nat) (n : Name) (u1 u2 : U) (o2 : Nat), (∃ K kids, shape v2 (F.node c) = some (K, kids)) →
      Inv bt u1 → walk bt F v2 fuel u1 c (some n) = some (u2, o2) → AL.lookup n u2.types = some o2 := by
    intro c n u1 u2 o2 hs h1 hw2
    obtain ⟨K, kids, hs⟩ := hs
    cases fuel with
    | zero => simp [walk] at hw2
    | succ f =>
      have ihf := walk_inv bt F v2 f
      simp only [walk] at hw2
      cases hc : F.node c with
      | alias _ => simp [hc, shape] at hs
      | basic _ => simp [hc, shape] at hs
      | tparam _ => simp [hc, shape] at hs
      | named _ _ _ _ => simp [hc, shape] at hs
      | _ =>
        simp only [hc] at hw2 hs
        simp only [hs, Option.getD_some] at hw2
        exact fill_idx ihf u1 n c _ K kids u2 o2 h1 hw2
  by_cases ha : isAliasUnder (F.node und) = true
  · simp only [ha, if_true] at hw
    have hnm : (if isAliasUnder (F.node und) = false ∧ (v2 && isStructOrIface (F.node und)) = true ∧ tps.isEmpty = false
        then genericName (nameOf v2 (F.str g)) tps else nameOf v2 (F.str g)) = nameOf v2 (F.str g) := by simp [ha]
    rw [hnm]
    obtain ⟨h1, g1, l1⟩ := type_inv (bt := bt) (nameOf v2 (F.str g)) h
    by_cases hk : (U.type bt u (nameOf v2 (F.str g))).1.kind (U.type bt u (nameOf v2 (F.str g))).2 ≠ .unknown
    · simp only [hk, ne_eq, not_false_eq_true, if_true, Option.some.injEq] at hw
      have e1 : (U.type bt u (nameOf v2 (F.str g))).1 = u' := by rw [hw]
      have e2 : (U.type bt u (nameOf v2 (F.str g))).2 = o := by rw [hw]
      rw [e1, e2] at l1; exact l1
    · simp only [hk, if_false] at hw
      have hunk : (U.type bt u (nameOf v2 (F.str g))).1.kind (U.type bt u (nameOf v2 (F.str g))).2 = .unknown := by simpa using hk
      obtain ⟨h2, g2⟩ := modify_inv (o := (U.type bt u (nameOf v2 (F.str g))).2)
        (mark_goodUpdate _ _ (fun ob => { ob with kind := .alias, src := some g }) hunk (fun ob => ⟨rfl, rfl⟩)) h1
      cases hr : runKids (fun u c un => walk bt F v2 fuel u c un) (U.type bt u (nameOf v2 (F.str g))).2
          ((U.type bt u (nameOf v2 (F.str g))).1.modify (U.type bt u (nameOf v2 (F.str g))).2 (fun ob => { ob with kind := .alias, src := some g }))
          [(und, none, .under)] with
      | none => simp [hr] at hw
      | some u3 =>
        simp only [hr] at hw
        obtain ⟨h3, g3⟩ := runKids_inv ih _ _ _ _ h2 hr
        have hoe := addMethods_snd v2 u3 _ ms u' o hw
        obtain ⟨ob, hob, _⟩ := h1.nameOK _ _ l1
        have hknown : Known ((U.type bt u (nameOf v2 (F.str g))).1.modify (U.type bt u (nameOf v2 (F.str g))).2 (fun ob => { ob with kind := .alias, src := some g }))
            (U.type bt u (nameOf v2 (F.str g))).2 := ⟨_, modify_get_eq hob, by simp⟩
        have p := addMethods_inv ih v2 u3 u3 _ ms u' o ⟨h3, Grows.refl _, hknown.mono g3, Reg.mono (.inl ⟨_, l1⟩) (g2.trans g3)⟩ hw
        rw [hoe]
        exact p.grows.idx _ _ (g3.idx _ _ (g2.idx _ _ l1))
  · simp only [ha, Bool.false_eq_true, if_false] at hw
    have hshape : ∃ K kids, shape v2 (F.node und) = some (K, kids) := by
      rcases hund with h | h
      · exact absurd h ha
      · exact h
    by_cases hs : (v2 && isStructOrIface (F.node und)) = true
    · simp only [hs, if_true] at hw
      have ha' : isAliasUnder (F.node und) = false := by simpa using ha
      have hname : (if isAliasUnder (F.node und) = false ∧ (v2 && isStructOrIface (F.node und)) = true ∧ tps.isEmpty = false
          then genericName (nameOf v2 (F.str g)) tps else nameOf v2 (F.str g)) =
          (if tps.isEmpty = true then nameOf v2 (F.str g) else genericName (nameOf v2 (F.str g)) tps) := by
        cases hte : tps.isEmpty <;> simp [ha', hs]
      rw [hname]
      cases hr0 : runKids (fun u c un => walk bt F v2 fuel u c un) 0 u (tps.map (fun tp => (tp.2, none, Setter.drop))) with
      | none => simp [hr0] at hw
      | some u1 =>
        simp only [hr0] at hw
        obtain ⟨h1, g1⟩ := runKids_inv ih 0 _ _ _ h hr0
        generalize hnm : (if tps.isEmpty = true then nameOf v2 (F.str g) else genericName (nameOf v2 (F.str g)) tps) = n' at hw ⊢
        by_cases hk : (U.type bt u1 n').1.kind (U.type bt u1 n').2 ≠ .unknown
        · simp only [hk, ne_eq, not_false_eq_true, if_true, Option.some.injEq] at hw
          obtain ⟨_, _, l1⟩ := type_inv (bt := bt) n' h1
          have e1 : (U.type bt u1 n').1 = u' := by rw [hw]
          have e2 : (U.type bt u1 n').2 = o := by rw [hw]
          rw [e1, e2] at l1; exact l1
        · simp only [hk, if_false] at hw
          obtain ⟨h2, g2, _⟩ := type_inv (bt := bt) n' h1
          cases hw2 : walk bt F v2 fuel (U.type bt u1 n').1 origUnd (some n') with
          | none => simp [hw2] at hw
          | some p =>
            obtain ⟨u3, o3⟩ := p
            simp only [hw2] at hw
            have l3 := shapeWalk origUnd _ _ u3 o3 (horig ha' hs) h2 hw2
            have p3 := ih _ _ _ _ _ h2 hw2
            obtain ⟨h4, g4⟩ := modify_inv (o := o3) (f := fun ob => { ob with tparams := [] })
              (fun ob _ => ⟨rfl, fun _ => rfl, fun r hr => .inl (by
                simp only [refs, List.map_nil, List.append_nil, List.mem_append] at hr ⊢
                exact .inl hr)⟩) p3.inv
            cases hr5 : runKids (fun u c un => walk bt F v2 fuel u c un) o3 (u3.modify o3 (fun ob => { ob with tparams := [] }))
                (tps.map (fun tp => (tp.2, none, Setter.tparam tp.1))) with
            | none => simp [hr5] at hw
            | some u5 =>
              simp only [hr5] at hw
              obtain ⟨h5, g5⟩ := runKids_inv ih o3 _ _ _ h4 hr5
              have hoe := addMethods_snd v2 _ o3 ms u' o hw
              have p5 := addMethods_inv ih v2 u5 u5 o3 ms u' o ⟨h5, Grows.refl _, p3.good.mono (g4.trans g5)⟩ hw
              rw [hoe]
              exact p5.grows.idx _ _ (g5.idx _ _ (g4.idx _ _ l3))
    · simp only [hs, Bool.false_eq_true, if_false] at hw
      have hnm : (if isAliasUnder (F.node und) = false ∧ (v2 && isStructOrIface (F.node und)) = true ∧ tps.isEmpty = false
          then genericName (nameOf v2 (F.str g)) tps else nameOf v2 (F.str g)) = nameOf v2 (F.str g) := by simp [hs]
      rw [hnm]
      by_cases hk : (U.type bt u (nameOf v2 (F.str g))).1.kind (U.type bt u (nameOf v2 (F.str g))).2 ≠ .unknown
      · simp only [hk, ne_eq, not_false_eq_true, if_true, Option.some.injEq] at hw
        obtain ⟨_, _, l1⟩ := type_inv (bt := bt) (nameOf v2 (F.str g)) h
        have e1 : (U.type bt u (nameOf v2 (F.str g))).1 = u' := by rw [hw]
        have e2 : (U.type bt u (nameOf v2 (F.str g))).2 = o := by rw [hw]
        rw [e1, e2] at l1; exact l1
      · simp only [hk, if_false] at hw
        obtain ⟨h2, g2, _⟩ := type_inv (bt := bt) (nameOf v2 (F.str g)) h
        cases hw2 : walk bt F v2 fuel (U.type bt u (nameOf v2 (F.str g))).1 und (some (nameOf v2 (F.str g))) with
        | none => simp [hw2] at hw
        | some p =>
          obtain ⟨u3, o3⟩ := p
          simp only [hw2] at hw
          have l3 := shapeWalk und _ _ u3 o3 hshape h2 hw2
          have p3 := ih _ _ _ _ _ h2 hw2
          have hoe := addMethods_snd v2 u3 o3 ms u' o hw
          have p5 := addMethods_inv ih v2 u3 u3 o3 ms u' o ⟨p3.inv, Grows.refl _, p3.good⟩ hw
          rw [hoe]
          exact p5.grows.idx _ _ l3

/-! ## declarations, package scans -/

def declIdx (u : U) : Decl → List (Name × Nat)
  | .func => u.funcs
  | .var => u.vars
  | .const => u.consts

theorem lookup_mem {α β} [DecidableEq α] (k : α) (v : β) : ∀ m : List (α × β), AL.lookup k m = some v → (k, v) ∈ m := by
  intro m
  induction m with
  | nil => intro h; simp [AL.lookup] at h
  | cons hd tl ih =>
    intro h
    obtain ⟨k', v'⟩ := hd
    simp only [AL.lookup] at h
    split at h
    · cases h; subst_vars; exact List.mem_cons_self
    · exact List.mem_cons_of_mem _ (ih h)

theorem declIdx_sub (u : U) (d : Decl) (n : Name) (o : Nat) (h : AL.lookup n (declIdx u d) = some o) : o ∈ declObjs u := by
  have hm := lookup_mem n o _ h
  unfold declObjs
  refine List.mem_map.mpr ⟨(n, o), ?_, rfl⟩
  cases d <;> simp only [declIdx] at hm <;> simp [hm]

/-- `u.Function(n)` / `u.Variable(n)` / `u.Constant(n)`: the invariant is kept and the result is a declaration object -/
theorem decl_inv {bt : List Builtin} {u : U} (d : Decl) (n : Name) (h : Inv bt u) :
    Inv bt (u.decl d n).1 ∧ Grows u (u.decl d n).1 ∧
      ∃ ob : Obj, (u.decl d n).1.objs[(u.decl d n).2]? = some ob ∧ ob.kind = .declarationOf := by
  obtain ⟨hpo, hpt, hpb, hpd⟩ := package_objs u n.pkg
  obtain ⟨hp, hgp⟩ := inv_of_same hpo hpt hpb hpd h
  obtain ⟨h1, g1, o1, t1, b1, d1, e1⟩ := newObj_inv (u := u.package n.pkg) { name := n, kind := .declarationOf } (by simp [refs]) hp
  -- registering the new object in one of the three indices
  have key : ∀ (u2 : U), u2.objs = ((u.package n.pkg).newObj { name := n, kind := .declarationOf }).1.objs →
      u2.types = ((u.package n.pkg).newObj { name := n, kind := .declarationOf }).1.types →
      u2.builtinObjs = ((u.package n.pkg).newObj { name := n, kind := .declarationOf }).1.builtinObjs →
      (∀ x ∈ declObjs u2, x ∈ declObjs ((u.package n.pkg).newObj { name := n, kind := .declarationOf }).1 ∨
        x = ((u.package n.pkg).newObj { name := n, kind := .declarationOf }).2) →
      Inv bt u2 ∧ Grows u u2 ∧ ∃ ob : Obj, u2.objs[((u.package n.pkg).newObj { name := n, kind := .declarationOf }).2]? = some ob ∧ ob.kind = .declarationOf := by
    intro u2 ho ht hb hd
    have hg2 : Grows ((u.package n.pkg).newObj { name := n, kind := .declarationOf }).1 u2 :=
      ⟨fun o ob hob => ⟨ob, by rw [ho]; exact hob, rfl, fun _ => rfl⟩, fun m o hl => by rw [ht]; exact hl⟩
    refine ⟨⟨?_, ?_, ?_, ?_⟩, hgp.trans (g1.trans hg2), ⟨_, by rw [ho]; exact o1, rfl⟩⟩
    · intro m x hl; rw [ht] at hl; obtain ⟨ob, k1, k2⟩ := h1.nameOK m x hl; exact ⟨ob, by rw [ho]; exact k1, k2⟩
    · intro x obx hx r hr; rw [ho] at hx; exact (h1.closed x obx hx r hr).mono hg2
    · intro var x hl; rw [hb] at hl; obtain ⟨ob, k1, k2⟩ := h1.builtinOK var x hl; exact ⟨ob, by rw [ho]; exact k1, k2⟩
    · intro x hx
      rcases hd x hx with hold | rfl
      · obtain ⟨ob, k1, k2⟩ := h1.declOK x hold; exact ⟨ob, by rw [ho]; exact k1, k2⟩
      · exact ⟨_, by rw [ho]; exact o1, rfl⟩
  cases d with
  | func =>
    unfold U.decl
    simp only
    cases hl : AL.lookup n u.funcs with
    | some o => exact ⟨h, Grows.refl _, h.declOK o (declIdx_sub u .func n o hl)⟩
    | none =>
      exact key _ rfl rfl rfl (fun x hx => by
        simp only [declObjs, List.map_append, List.map_cons, List.mem_append, List.mem_cons] at hx ⊢
        rcases hx with ((hx | hx) | hx) | hx
        · exact .inr hx
        · exact .inl (.inl (.inl hx))
        · exact .inl (.inl (.inr hx))
        · exact .inl (.inr hx))
  | var =>
    unfold U.decl
    simp only
    cases hl : AL.lookup n u.vars with
    | some o => exact ⟨h, Grows.refl _, h.declOK o (declIdx_sub u .var n o hl)⟩
    | none =>
      exact key _ rfl rfl rfl (fun x hx => by
        simp only [declObjs, List.map_append, List.map_cons, List.mem_append, List.mem_cons] at hx ⊢
        rcases hx with (hx | (hx | hx)) | hx
        · exact .inl (.inl (.inl hx))
        · exact .inr hx
        · exact .inl (.inl (.inr hx))
        · exact .inl (.inr hx))
  | const =>
    unfold U.decl
    simp only
    cases hl : AL.lookup n u.consts with
    | some o => exact ⟨h, Grows.refl _, h.declOK o (declIdx_sub u .const n o hl)⟩
    | none =>
      exact key _ rfl rfl rfl (fun x hx => by
        simp only [declObjs, List.map_append, List.map_cons, List.mem_append, List.mem_cons] at hx ⊢
        rcases hx with (hx | hx) | (hx | hx)
        · exact .inl (.inl (.inl hx))
        · exact .inl (.inl (.inr hx))
        · exact .inr hx
        · exact .inl (.inr hx))

theorem addDecl_inv {bt : List Builtin} (F : Facts) (v2 : Bool) (fuel : Nat) (u : U) (d : Decl) (n : Name) (ty : Nat)
    (cv : Option Str) (u' : U) (h : Inv bt u) (hf : addDecl bt F v2 fuel u d n ty cv = some u') :
    Inv bt u' ∧ Grows u u' := by
  unfold addDecl at hf
  obtain ⟨h1, g1, ob, hob, hk⟩ := decl_inv (bt := bt) d n h
  obtain ⟨h2, g2⟩ := modify_inv (o := (u.decl d n).2) (f := fun ob => { ob with kind := .declarationOf })
    (fun ob' hob' => ⟨rfl, fun _ => by rw [hob] at hob'; cases hob'; exact hk.symm, fun r hr => .inl hr⟩) h1
  cases hw : walk bt F v2 fuel ((u.decl d n).1.modify (u.decl d n).2 (fun ob => { ob with kind := .declarationOf })) ty none with
  | none => simp [hw] at hf
  | some p =>
    obtain ⟨u3, o3⟩ := p
    simp only [hw, Option.some.injEq] at hf
    subst hf
    have p3 := walk_inv bt F v2 fuel _ _ _ _ _ h2 hw
    obtain ⟨h4, g4⟩ := modify_inv (o := (u.decl d n).2)
      (f := fun ob => { ob with under := some o3, constVal := if cv.isSome = true then cv else ob.constVal })
      (fun ob' _ => ⟨rfl, fun _ => rfl, fun r hr => by
        simp only [refs, List.mem_append, Option.mem_toList] at hr ⊢
        rcases hr with (((((((hr | hr) | hr) | hr) | hr) | hr) | hr) | hr) | hr
        · exact .inl (.inl (.inl (.inl (.inl (.inl (.inl (.inl (.inl hr))))))))
        · exact .inl (.inl (.inl (.inl (.inl (.inl (.inl (.inl (.inr hr))))))))
        · right; simp only [Option.some.injEq] at hr; subst hr; exact p3.good
        · exact .inl (.inl (.inl (.inl (.inl (.inl (.inr hr))))))
        · exact .inl (.inl (.inl (.inl (.inl (.inr hr)))))
        · exact .inl (.inl (.inl (.inl (.inr hr))))
        · exact .inl (.inl (.inl (.inr hr)))
        · exact .inl (.inl (.inr hr))
        · exact .inl (.inr hr)⟩) p3.inv
    exact ⟨h4, g1.trans (g2.trans (p3.grows.trans g4))⟩

theorem addObj_inv {bt : List Builtin} (F : Facts) (v2 : Bool) (fuel : Nat) (u : U) (ob : GObj) (u' : U) (h : Inv bt u)
    (hf : addObj bt F v2 fuel u ob = some u') : Inv bt u' ∧ Grows u u' := by
  unfold addObj at hf
  cases hk : ob.kind with
  | typeName =>
    simp only [hk] at hf
    cases hw : walk bt F v2 fuel u ob.ty none with
    | none => simp [hw] at hf
    | some p =>
      simp only [hw, Option.map_some, Option.some.injEq] at hf
      subst hf
      have p3 := walk_inv bt F v2 fuel _ _ _ _ _ h hw
      exact ⟨p3.inv, p3.grows⟩
  | func => simp only [hk] at hf; exact addDecl_inv F v2 fuel u _ _ _ _ u' h hf
  | var => simp only [hk] at hf; exact addDecl_inv F v2 fuel u _ _ _ _ u' h hf
  | const => simp only [hk] at hf; exact addDecl_inv F v2 fuel u _ _ _ _ u' h hf

theorem addObjs_inv {bt : List Builtin} (F : Facts) (v2 : Bool) (fuel : Nat) : ∀ (obs : List GObj) (u u' : U), Inv bt u →
    addObjs bt F v2 fuel u obs = some u' → Inv bt u' ∧ Grows u u' := by
  intro obs
  induction obs with
  | nil => intro u u' h hf; simp only [addObjs, Option.some.injEq] at hf; subst hf; exact ⟨h, Grows.refl _⟩
  | cons ob rest ih =>
    intro u u' h hf
    simp only [addObjs] at hf
    cases ha : addObj bt F v2 fuel u ob with
    | none => simp [ha] at hf
    | some u1 =>
      simp only [ha] at hf
      obtain ⟨h1, g1⟩ := addObj_inv F v2 fuel u ob u1 h ha
      obtain ⟨h2, g2⟩ := ih u1 u' h1 hf
      exact ⟨h2, g1.trans g2⟩

theorem setPkg_same (u : U) (p : Str) (f : PkgRec → PkgRec) :
    (u.setPkg p f).objs = u.objs ∧ (u.setPkg p f).types = u.types ∧ (u.setPkg p f).builtinObjs = u.builtinObjs ∧
      declObjs (u.setPkg p f) = declObjs u := ⟨rfl, rfl, rfl, rfl⟩

theorem foldl_package_same (imps : List Str) : ∀ (u : U),
    (imps.foldl (fun u i => u.package i) u).objs = u.objs ∧ (imps.foldl (fun u i => u.package i) u).types = u.types ∧
    (imps.foldl (fun u i => u.package i) u).builtinObjs = u.builtinObjs ∧
    declObjs (imps.foldl (fun u i => u.package i) u) = declObjs u := by
  induction imps with
  | nil => intro u; exact ⟨rfl, rfl, rfl, rfl⟩
  | cons i rest ih =>
    intro u
    simp only [List.foldl_cons]
    obtain ⟨a, b, c, d⟩ := ih (u.package i)
    obtain ⟨a', b', c', d'⟩ := package_objs u i
    exact ⟨a.trans a', b.trans b', c.trans c', d.trans d'⟩

theorem addImports_same (u : U) (p : Str) (imps : List Str) :
    (u.addImports p imps).objs = u.objs ∧ (u.addImports p imps).types = u.types ∧
    (u.addImports p imps).builtinObjs = u.builtinObjs ∧ declObjs (u.addImports p imps) = declObjs u := by
  unfold U.addImports
  obtain ⟨a, b, c, d⟩ := foldl_package_same imps (u.package p)
  obtain ⟨a', b', c', d'⟩ := package_objs u p
  exact ⟨a.trans a', b.trans b', c.trans c', d.trans d'⟩

/-- **scan_keeps_invariant**: the full scan of a requested package -/
theorem scanPkg_inv {bt : List Builtin} (F : Facts) (v2 : Bool) (fuel : Nat) (u : U) (p : GPkg) (u' : U) (h : Inv bt u)
    (hf : scanPkg bt F v2 fuel u p = some u') : Inv bt u' ∧ Grows u u' := by
  unfold scanPkg at hf
  obtain ⟨a, b, c, d⟩ := package_objs u p.path
  obtain ⟨h1, g1⟩ := inv_of_same (u' := (u.package p.path).setPkg p.path (fun r => { r with name := p.name })) a b c d h
  cases ha : addObjs bt F v2 fuel ((u.package p.path).setPkg p.path (fun r => { r with name := p.name })) p.scope with
  | none => simp [ha] at hf
  | some u2 =>
    simp only [ha, Option.some.injEq] at hf
    subst hf
    obtain ⟨h2, g2⟩ := addObjs_inv F v2 fuel _ _ _ h1 ha
    obtain ⟨a', b', c', d'⟩ := addImports_same u2 p.path (p.imports.mergeSort Str.le)
    obtain ⟨h3, g3⟩ := inv_of_same a' b' c' d' h2
    exact ⟨h3, g1.trans (g2.trans g3)⟩

theorem inv_empty (bt : List Builtin) : Inv bt {} := by
  refine ⟨?_, ?_, ?_, ?_⟩
  · intro n o h; simp [AL.lookup] at h
  · intro o ob h; simp at h
  · intro v o h; simp [AL.lookup] at h
  · intro o h; simp [declObjs] at h

/-! ## the loaders -/
open Gengo.Loader

theorem foldl_bind_none {α β} (f : α → β → Option α) : ∀ l : List β, l.foldl (fun acc b => acc.bind (fun s => f s b)) none = none := by
  intro l; induction l <;> simp_all

/-- folding a partial step over a list preserves any invariant the step preserves -/
theorem foldl_bind_inv {α β} (f : α → β → Option α) (P : α → Prop)
    (hP : ∀ a b a', P a → f a b = some a' → P a') :
    ∀ (l : List β) (a a' : α), P a → l.foldl (fun acc b => acc.bind (fun s => f s b)) (some a) = some a' → P a' := by
  intro l
  induction l with
  | nil => intro a a' ha h; simp only [List.foldl_nil, Option.some.injEq] at h; subst h; exact ha
  | cons b bs ih =>
    intro a a' ha h
    simp only [List.foldl_cons, Option.bind_some] at h
    cases hf : f a b with
    | none => rw [hf, foldl_bind_none] at h; cases h
    | some a1 => rw [hf] at h; exact ih a1 a' (hP a b a1 ha hf) h

theorem visitV2_inv (w : World) : ∀ (n : Nat) (st st' : LState) (path : Str), Inv w.bt st.u →
    visitV2 w n st path = some st' → Inv w.bt st'.u ∧ Grows st.u st'.u := by
  intro n
  induction n with
  | zero => intro st st' path _ h; simp [visitV2] at h
  | succ n ih =>
    intro st st' path hinv h
    simp only [visitV2] at h
    split at h
    · cases h; exact ⟨hinv, Grows.refl _⟩
    · cases hf : w.find path with
      | none => simp [hf] at h
      | some p =>
        simp only [hf] at h
        obtain ⟨a, b, c, d⟩ := package_objs st.u path
        obtain ⟨h1, g1⟩ := inv_of_same a b c d hinv
        split at h
        · cases h; exact ⟨h1, g1⟩
        · obtain ⟨a2, b2, c2, d2⟩ := package_objs (st.u.package path) p.path
          obtain ⟨h2, g2⟩ := inv_of_same (u' := ((st.u.package path).package p.path).setPkg p.path (fun r => { r with name := p.name })) a2 b2 c2 d2 h1
          cases ha : addObjs w.bt w.facts w.v2 w.fuel (((st.u.package path).package p.path).setPkg p.path (fun r => { r with name := p.name })) p.scope with
          | none => simp [ha] at h
          | some u3 =>
            simp only [ha] at h
            obtain ⟨h3, g3⟩ := addObjs_inv w.facts w.v2 w.fuel _ _ _ h2 ha
            generalize hst3 : ({ u := u3, requested := st.requested, processed := st.processed ++ [path] } : LState) = st3 at h
            cases hfold : p.imports.foldl (fun acc i => acc.bind (fun s => visitV2 w n s i)) (some st3) with
            | none => simp [hfold] at h
            | some st4 =>
              simp only [hfold, Option.some.injEq] at h
              subst h
              have h4 := foldl_bind_inv (fun s i => visitV2 w n s i) (fun s => Inv w.bt s.u ∧ Grows u3 s.u)
                (fun s i s' hs hv => by
                  obtain ⟨x, y⟩ := ih s s' i hs.1 hv
                  exact ⟨x, hs.2.trans y⟩) p.imports st3 st4 (by subst hst3; exact ⟨h3, Grows.refl _⟩) hfold
              obtain ⟨a5, b5, c5, d5⟩ := addImports_same st4.u p.path (p.imports.mergeSort Str.le)
              obtain ⟨h5, g5⟩ := inv_of_same a5 b5 c5 d5 h4.1
              exact ⟨h5, g1.trans (g2.trans (g3.trans (h4.2.trans g5)))⟩

theorem addPkgsV2_inv (w : World) (st st' : LState) (roots : List Str) (hinv : Inv w.bt st.u)
    (h : addPkgsV2 w st roots = some st') : Inv w.bt st'.u ∧ Grows st.u st'.u := by
  unfold addPkgsV2 at h
  exact foldl_bind_inv (fun s p => visitV2 w (w.pkgs.length + 1) s p) (fun s => Inv w.bt s.u ∧ Grows st.u s.u)
    (fun s p s' hs hv => by
      obtain ⟨x, y⟩ := visitV2_inv w _ s s' p hs.1 hv
      exact ⟨x, hs.2.trans y⟩) _ st st' ⟨hinv, Grows.refl _⟩ h

/-- **v2_universe_closed_and_canonical**: `LoadPackages` + `NewUniverse` from nothing -/
theorem newUniverseV2_inv (w : World) (req : List Str) (st : LState) (h : newUniverseV2 w req = some st) : Inv w.bt st.u := by
  unfold newUniverseV2 at h
  exact (addPkgsV2_inv w _ st _ (inv_empty w.bt) h).1

/-- … and every incremental `LoadPackagesTo` keeps it, only ever growing the universe (objects obtained
before stay the registered ones) -/
theorem loadToV2_inv (w : World) (st st' : LState) (more : List Str) (hinv : Inv w.bt st.u)
    (h : loadToV2 w st more = some st') : Inv w.bt st'.u ∧ Grows st.u st'.u := by
  unfold loadToV2 at h
  exact addPkgsV2_inv w { st with requested := more.foldl (fun acc r => if acc.contains r then acc else acc ++ [r]) st.requested } st' more hinv h

theorem findTypesInV1_inv (w : World) (st st' : LState) (path : Str) (hinv : Inv w.bt st.u)
    (h : findTypesInV1 w st path = some st') : Inv w.bt st'.u ∧ Grows st.u st'.u := by
  unfold findTypesInV1 at h
  cases hf : w.find path with
  | none => simp [hf] at h
  | some p =>
    simp only [hf] at h
    split at h
    · cases h; exact ⟨hinv, Grows.refl _⟩
    · cases hs : scanPkg w.bt w.facts w.v2 w.fuel st.u p with
      | none => simp [hs] at h
      | some u' =>
        simp only [hs, Option.map_some, Option.some.injEq] at h
        subst h
        exact scanPkg_inv w.facts w.v2 w.fuel st.u p u' hinv hs

/-- **v1_universe_closed_and_canonical**: `AddDir…` + `FindTypes` from nothing -/
theorem findTypesV1_inv (w : World) (req : List Str) (st : LState) (h : findTypesV1 w req = some st) : Inv w.bt st.u := by
  unfold findTypesV1 at h
  exact (foldl_bind_inv (fun s p => findTypesInV1 w s p) (fun s => Inv w.bt s.u)
    (fun s p s' hs hv => (findTypesInV1_inv w s s' p hs hv).1) _ _ st (inv_empty w.bt) h)

theorem addDirToV1_inv (w : World) (st st' : LState) (path : Str) (hinv : Inv w.bt st.u)
    (h : addDirToV1 w st path = some st') : Inv w.bt st'.u ∧ Grows st.u st'.u := by
  unfold addDirToV1 at h
  exact findTypesInV1_inv w { st with requested := if st.requested.contains path then st.requested else st.requested ++ [path] } st' path hinv h

/-! ## what the invariant means for users of the universe -/

/-- **same_name_same_object**: any two references anywhere in the universe to objects of the same name – other
than type parameters and builtins – are references to one object -/
theorem same_name_same_object {bt : List Builtin} {u : U} (h : Inv bt u) (o1 o2 : Nat) (ob1 ob2 : Obj)
    (r1 r2 : Nat) (t1 t2 : Obj)
    (h1 : u.objs[o1]? = some ob1) (h2 : u.objs[o2]? = some ob2) (hr1 : r1 ∈ refs ob1) (hr2 : r2 ∈ refs ob2)
    (ht1 : u.objs[r1]? = some t1) (ht2 : u.objs[r2]? = some t2) (hname : t1.name = t2.name)
    (hk1 : t1.kind ≠ .typeParam) (hk2 : t2.kind ≠ .typeParam)
    (hb : ∀ b ∈ bt, t1.name ≠ ⟨[], b.name⟩) : r1 = r2 := by
  obtain ⟨_, reg1⟩ := h.closed o1 ob1 h1 r1 hr1
  obtain ⟨_, reg2⟩ := h.closed o2 ob2 h2 r2 hr2
  rcases reg1 with ⟨n1, l1⟩ | ⟨x, hx, hxk⟩
  · rcases reg2 with ⟨n2, l2⟩ | ⟨y, hy, hyk⟩
    · obtain ⟨a, ha, hna⟩ := h.nameOK n1 r1 l1
      obtain ⟨b, hb2, hnb⟩ := h.nameOK n2 r2 l2
      rw [ht1] at ha; cases ha
      rw [ht2] at hb2; cases hb2
      have e1 : t1.name = n1 := by
        rcases hna with hna | ⟨_, _, _, _, b', hb', _, hn'⟩
        · exact hna
        · exact absurd hn' (hb b' hb')
      have e2 : t2.name = n2 := by
        rcases hnb with hnb | ⟨_, _, _, _, b', hb', _, hn'⟩
        · exact hnb
        · exact absurd (hname.trans hn') (hb b' hb')
      have : n1 = n2 := by rw [← e1, ← e2, hname]
      subst this
      rw [l1] at l2; cases l2; rfl
    · rw [ht2] at hy; cases hy; exact absurd hyk hk2
  · rw [ht1] at hx; cases hx; exact absurd hxk hk1

/-- **nothing_unresolved**: every object referenced from anywhere has a kind -/
theorem nothing_unresolved {bt : List Builtin} {u : U} (h : Inv bt u) (o : Nat) (ob : Obj) (r : Nat)
    (h1 : u.objs[o]? = some ob) (hr : r ∈ refs ob) : ∃ t, u.objs[r]? = some t ∧ t.kind ≠ .unknown :=
  (h.closed o ob h1 r hr).1

end Gengo.WalkInv

import Gengo.Basic.Str
/-! `Str.lt` is a strict total order (code-point lexicographic = Go's `<` on valid UTF-8). -/
namespace Gengo.Str

theorem lt_irrefl (a : Str) : lt a a = false := by
  induction a with
  | nil => rfl
  | cons c cs ih => simp [lt, ih]

theorem lt_asymm (a b : Str) (h : lt a b = true) : lt b a = false := by
  induction a generalizing b with
  | nil => cases b <;> simp_all [lt]
  | cons c cs ih =>
    cases b with
    | nil => simp [lt] at h
    | cons d ds =>
      simp only [lt] at h ⊢
      by_cases h1 : c.toNat < d.toNat
      · have : ¬ d.toNat < c.toNat := by omega
        simp [this, h1]
      · simp only [h1, if_false] at h
        by_cases h2 : d.toNat < c.toNat
        · simp [h2] at h
        · simp only [h2, if_false] at h
          simp [h1, h2, ih ds h]

theorem lt_trans (a b c : Str) (h1 : lt a b = true) (h2 : lt b c = true) : lt a c = true := by
  induction a generalizing b c with
  | nil =>
    cases b with
    | nil => simp [lt] at h1
    | cons d ds => cases c <;> simp_all [lt]
  | cons x xs ih =>
    cases b with
    | nil => simp [lt] at h1
    | cons y ys =>
      cases c with
      | nil => simp [lt] at h2
      | cons z zs =>
        simp only [lt] at h1 h2 ⊢
        by_cases a1 : x.toNat < y.toNat
        · by_cases b1 : y.toNat < z.toNat
          · have : x.toNat < z.toNat := by omega
            simp [this]
          · simp only [b1, if_false] at h2
            by_cases b2 : z.toNat < y.toNat
            · simp [b2] at h2
            · have : x.toNat < z.toNat := by omega
              simp [this]
        · simp only [a1, if_false] at h1
          by_cases a2 : y.toNat < x.toNat
          · simp [a2] at h1
          · simp only [a2, if_false] at h1
            by_cases b1 : y.toNat < z.toNat
            · have : x.toNat < z.toNat := by omega
              simp [this]
            · simp only [b1, if_false] at h2
              by_cases b2 : z.toNat < y.toNat
              · simp [b2] at h2
              · simp only [b2, if_false] at h2
                have e1 : ¬ x.toNat < z.toNat := by omega
                have e2 : ¬ z.toNat < x.toNat := by omega
                simp [e1, e2, ih ys zs h1 h2]

theorem eq_of_not_lt (a b : Str) (h1 : lt a b = false) (h2 : lt b a = false) : a = b := by
  induction a generalizing b with
  | nil => cases b <;> simp_all [lt]
  | cons x xs ih =>
    cases b with
    | nil => simp [lt] at h2
    | cons y ys =>
      simp only [lt] at h1 h2
      by_cases a1 : x.toNat < y.toNat
      · simp [a1] at h1
      · by_cases a2 : y.toNat < x.toNat
        · simp [a2] at h2
        · simp only [a1, a2, if_false] at h1 h2
          have : x = y := by
            apply Char.ext
            apply UInt32.toNat_inj.mp
            show x.toNat = y.toNat
            omega
          subst this
          rw [ih ys h1 h2]

theorem lt_total (a b : Str) : lt a b = true ∨ a = b ∨ lt b a = true := by
  cases h1 : lt a b with
  | true => left; rfl
  | false =>
    cases h2 : lt b a with
    | true => right; right; rfl
    | false => right; left; exact eq_of_not_lt a b h1 h2

theorem le_total (a b : Str) : (le a b || le b a) = true := by
  unfold le
  cases h1 : lt b a with
  | false => simp
  | true => simp [lt_asymm b a h1]

theorem le_trans (a b c : Str) (h1 : le a b = true) (h2 : le b c = true) : le a c = true := by
  unfold le at *
  simp only [Bool.not_eq_true'] at *
  cases h : lt c a with
  | false => rfl
  | true =>
    -- c < a, not b < a, so a ≤ b; not c < b so b ≤ c
    rcases lt_total a b with hab | hab | hab
    · have := lt_trans c a b h hab; rw [this] at h2; cases h2
    · subst hab; rw [h] at h2; cases h2
    · rw [hab] at h1; cases h1

theorem le_antisymm (a b : Str) (h1 : le a b = true) (h2 : le b a = true) : a = b := by
  unfold le at *
  simp only [Bool.not_eq_true'] at *
  exact eq_of_not_lt a b h2 h1

end Gengo.Str

import Gengo.Lemmas.Case
import Gengo.Model.Namer
/-!
# Names of named types are Go identifiers (C14)
-/
namespace Gengo.Ident
open Gengo Gengo.Namer

/-- a character of a Go identifier (ASCII) -/
def identChar (c : Char) : Bool := Str.isAsciiLetter c || Str.isAsciiDigit c || c == '_'
/-- … and one it may start with -/
def identStart (c : Char) : Bool := Str.isAsciiLetter c || c == '_'

/-- a Go identifier (ASCII) -/
def isIdent : Str → Bool
  | [] => false
  | c :: cs => identStart c && cs.all identChar

/-- an element of an import path as the property quantifies them: starts with a letter, goes on with letters, digits,
`_`, `-` and `.` -/
def pathElemOK : Str → Bool
  | [] => false
  | c :: cs => Str.isAsciiLetter c && cs.all (fun d => identChar d || d == '-' || d == '.')

theorem identStart_identChar {c : Char} (h : identStart c = true) : identChar c = true := by
  unfold identStart at h; unfold identChar
  simp only [Bool.or_eq_true] at h ⊢
  rcases h with h | h
  · exact .inl (.inl h)
  · exact .inr h

theorem letter_of_upper {c : Char} (h : Str.isAsciiUpper c = true) : Str.isAsciiLetter c = true := by
  simp [Str.isAsciiLetter, h]

theorem letter_of_lower {c : Char} (h : Str.isAsciiLower c = true) : Str.isAsciiLetter c = true := by
  simp [Str.isAsciiLetter, h]

theorem upper_identChar {c : Char} (h : identChar c = true) : identChar (Str.upper c) = true := by
  by_cases hl : Str.isAsciiLower c = true
  · have := Str.upper_letter c (letter_of_lower hl)
    simp [identChar, letter_of_upper this]
  · have : Str.upper c = c := by simp [Str.upper, hl]
    rw [this]; exact h

theorem lower_identChar {c : Char} (h : identChar c = true) : identChar (Str.lower c) = true := by
  by_cases hl : Str.isAsciiUpper c = true
  · have := Str.lower_letter c (letter_of_upper hl)
    simp [identChar, letter_of_lower this]
  · have : Str.lower c = c := by simp [Str.lower, hl]
    rw [this]; exact h

theorem upper_identStart {c : Char} (h : identStart c = true) : identStart (Str.upper c) = true := by
  by_cases hl : Str.isAsciiLower c = true
  · have := Str.upper_letter c (letter_of_lower hl)
    simp [identStart, letter_of_upper this]
  · have : Str.upper c = c := by simp [Str.upper, hl]
    rw [this]; exact h

theorem lower_identStart {c : Char} (h : identStart c = true) : identStart (Str.lower c) = true := by
  by_cases hl : Str.isAsciiUpper c = true
  · have := Str.lower_letter c (letter_of_upper hl)
    simp [identStart, letter_of_lower this]
  · have : Str.lower c = c := by simp [Str.lower, hl]
    rw [this]; exact h

/-- a capitaliser (`IC`, `IL`) keeps identifiers identifiers -/
theorem IC_ident {s : Str} (h : isIdent s = true) : isIdent (IC s) = true := by
  cases s with
  | nil => exact h
  | cons c cs =>
    simp only [isIdent, Bool.and_eq_true] at h
    simp only [IC, isIdent, Bool.and_eq_true]
    exact ⟨upper_identStart h.1, h.2⟩

theorem IL_ident {s : Str} (h : isIdent s = true) : isIdent (IL s) = true := by
  cases s with
  | nil => exact h
  | cons c cs =>
    simp only [isIdent, Bool.and_eq_true] at h
    simp only [IL, isIdent, Bool.and_eq_true]
    exact ⟨lower_identStart h.1, h.2⟩

theorem IC_all {s : Str} (h : s.all identChar = true) : (IC s).all identChar = true := by
  cases s with
  | nil => exact h
  | cons c cs =>
    simp only [List.all_cons, Bool.and_eq_true] at h
    simp only [IC, List.all_cons, Bool.and_eq_true]
    exact ⟨upper_identChar h.1, h.2⟩

theorem ident_all {s : Str} (h : isIdent s = true) : s.all identChar = true := by
  cases s with
  | nil => cases h
  | cons c cs =>
    simp only [isIdent, Bool.and_eq_true] at h
    simp only [List.all_cons, Bool.and_eq_true]
    exact ⟨identStart_identChar h.1, h.2⟩

/-- an identifier followed by identifier characters is an identifier -/
theorem ident_append {a b : Str} (ha : isIdent a = true) (hb : b.all identChar = true) : isIdent (a ++ b) = true := by
  cases a with
  | nil => cases ha
  | cons c cs =>
    simp only [isIdent, Bool.and_eq_true] at ha
    simp only [List.cons_append, isIdent, List.all_append, Bool.and_eq_true]
    exact ⟨ha.1, ha.2, hb⟩

theorem flatten_all {l : List Str} (h : ∀ p ∈ l, p.all identChar = true) : l.flatten.all identChar = true := by
  induction l with
  | nil => rfl
  | cons p ps ih =>
    simp only [List.flatten_cons, List.all_append, Bool.and_eq_true]
    exact ⟨h p List.mem_cons_self, ih (fun q hq => h q (List.mem_cons_of_mem _ hq))⟩

/-- the directory sanitiser turns a path element into an identifier -/
theorem sanitize_all {p : Str} (h : p.all (fun d => identChar d || d == '-' || d == '.') = true) :
    (sanitizeDir p).all identChar = true := by
  induction p with
  | nil => rfl
  | cons c cs ih =>
    simp only [List.all_cons, Bool.and_eq_true] at h
    have ih' := ih h.2
    unfold sanitizeDir at ih' ⊢
    simp only [List.flatMap_cons, List.all_append, Bool.and_eq_true]
    refine ⟨?_, ih'⟩
    by_cases h1 : c = '-'
    · subst h1; decide
    · by_cases h2 : c = '.'
      · subst h2; decide
      · simp only [h1, h2, if_false, List.all_cons, List.all_nil, Bool.and_true]
        have := h.1
        simp only [Bool.or_eq_true, beq_iff_eq] at this
        rcases this with (h3 | h3) | h3
        · exact h3
        · exact absurd h3 h1
        · exact absurd h3 h2

theorem sanitize_ident {p : Str} (h : pathElemOK p = true) : isIdent (sanitizeDir p) = true := by
  cases p with
  | nil => cases h
  | cons c cs =>
    simp only [pathElemOK, Bool.and_eq_true] at h
    have hc1 : c ≠ '-' := by
      intro e; subst e; have := h.1; revert this; decide
    have hc2 : c ≠ '.' := by
      intro e; subst e; have := h.1; revert this; decide
    have hrest := sanitize_all h.2
    unfold sanitizeDir at hrest ⊢
    simp only [List.flatMap_cons, hc1, hc2, if_false, List.cons_append, List.nil_append, isIdent, Bool.and_eq_true]
    exact ⟨by simp [identStart, h.1], hrest⟩

/-- **join_ident**: the Join of a non-empty list of identifiers, with a prefix that is empty or an identifier and a suffix
of identifier characters, is an identifier -/
theorem join_ident (st : Strategy) (parts : List Str) (hne : parts ≠ []) (hparts : ∀ p ∈ parts, isIdent p = true)
    (hpre : st.pre = [] ∨ isIdent st.pre = true) (hpost : st.post.all identChar = true) :
    isIdent (st.join parts) = true := by
  unfold Strategy.join joinWith
  have hflat : ((parts.map IC).flatten).all identChar = true :=
    flatten_all (fun p hp => by
      obtain ⟨q, hq, rfl⟩ := List.mem_map.mp hp
      exact IC_all (ident_all (hparts q hq)))
  have hmid : isIdent ((parts.map IC).flatten) = true := by
    cases parts with
    | nil => exact absurd rfl hne
    | cons p ps =>
      simp only [List.map_cons, List.flatten_cons]
      exact ident_append (IC_ident (hparts p List.mem_cons_self))
        (flatten_all (fun q hq => by
          obtain ⟨q', hq', rfl⟩ := List.mem_map.mp hq
          exact IC_all (ident_all (hparts q' (List.mem_cons_of_mem _ hq')))))
  have hbody : isIdent (IC st.pre ++ (parts.map IC).flatten ++ IC st.post) = true := by
    rw [List.append_assoc]
    rcases hpre with h0 | h1
    · rw [h0]; simp only [IC, List.nil_append]
      exact ident_append hmid (IC_all hpost)
    · exact ident_append (IC_ident h1) (by
        simp only [List.all_append, Bool.and_eq_true]; exact ⟨hflat, IC_all hpost⟩)
  unfold Strategy.first
  split
  · exact IC_ident hbody
  · exact IL_ident hbody

end Gengo.Ident

import Gengo.Lemmas.WalkInv
/-!
# Every object is described by the Go node it was filled from (C01), on the full model of `walkType`

`WalkInv` shows that the universe stays closed and canonical.  This file adds the other half of fidelity:
an object that `walkType` has filled from a node of the type checker's graph carries the kind of that node
and, attribute by attribute, references to the objects that stand for the node's children – in declaration
order, with names, embedded flags and tags – for pointers, slices, arrays (with length), channels, maps,
structs, signatures (parameters, results, variadic flag, receiver), defined types under the alias rule, and
the flattening rule (the object of a defined type over a struct is described by the struct node).

Scope: all programs of the model, v2's generic declarations included (a generic struct is registered under `Foo[T]`,
described by the underlying node of its origin whichever use is seen first, its fields of parameter type refer to
`TypeParam` objects).  Method sets are not part of `Desc` (they are attached in a later phase and are compared on the
real code by the correspondence and the oracle).
-/
namespace Gengo.WalkDesc
open Gengo Gengo.Universe Gengo.WalkInv

/-- no generic declarations and no type parameters in the program (no theorem needs this any more; it is still reported
per correspondence case as a statistic) -/
structure NoGenerics (F : Facts) : Prop where
  named : ∀ g und ms tps origUnd, F.node g = .named und ms tps origUnd → tps = []
  notparam : ∀ g c, F.node g ≠ .tparam c

/-- `r` is the object that stands for node `c`: the one registered under the node's name (type aliases are
transparent, basic types are registered under their bare name, a generic declaration is registered under
`Foo[T]`); a type parameter is never registered: it is a `TypeParam` object of that name -/
inductive Res (F : Facts) (v2 : Bool) (u : U) : Nat → Nat → Prop
  | alias {c t r : Nat} : F.node c = .alias t → Res F v2 u t r → Res F v2 u c r
  | basic {c r : Nat} {n : Str} : F.node c = .basic n → AL.lookup (⟨[], n⟩ : Name) u.types = some r → Res F v2 u c r
  | tparam {c r k : Nat} : F.node c = .tparam k →
      (∃ ob : Obj, u.objs[r]? = some ob ∧ ob.kind = .typeParam ∧ ob.name = nameOf v2 (F.str c)) → Res F v2 u c r
  | byName {c r : Nat} : (∀ t, F.node c ≠ .alias t) → (∀ n, F.node c ≠ .basic n) → (∀ k, F.node c ≠ .tparam k) →
      AL.lookup (regName F v2 c) u.types = some r → Res F v2 u c r

theorem Res.mono {F : Facts} {v2 : Bool} {u u' : U} {c r : Nat} (h : Res F v2 u c r) (hg : Grows u u') : Res F v2 u' c r := by
  induction h with
  | alias hn _ ih => exact .alias hn ih
  | basic hn hl => exact .basic hn (hg.idx _ _ hl)
  | tparam hn ho =>
    obtain ⟨ob, h1, h2, h3⟩ := ho
    obtain ⟨ob', k1, k2, k3⟩ := hg.objs _ ob h1
    exact .tparam hn ⟨ob', k1, by rw [k3 (by rw [h2]; decide), h2], k2.trans h3⟩
  | byName h1 h2 h3 hl => exact .byName h1 h2 h3 (hg.idx _ _ hl)

/-- nodes other than defined types are registered under their printed name -/
theorem regName_other {F : Facts} {v2 : Bool} {c : Nat} (h : ∀ und ms tps ou, F.node c ≠ .named und ms tps ou) :
    regName F v2 c = nameOf v2 (F.str c) := by
  unfold regName
  cases hn : F.node c with
  | named und ms tps ou => exact absurd hn (h und ms tps ou)
  | _ => rfl

inductive All2 {α β : Type} (R : α → β → Prop) : List α → List β → Prop
  | nil : All2 R [] []
  | cons {a b as bs} : R a b → All2 R as bs → All2 R (a :: as) (b :: bs)

theorem All2.imp {α β : Type} {R S : α → β → Prop} (h : ∀ a b, R a b → S a b) {l₁ l₂} (p : All2 R l₁ l₂) :
    All2 S l₁ l₂ := by
  induction p with
  | nil => exact .nil
  | cons r _ ih => exact .cons (h _ _ r) ih

theorem All2.append {α β : Type} {R : α → β → Prop} {a₁ a₂ : List α} {b₁ b₂ : List β} (h1 : All2 R a₁ b₁) (h2 : All2 R a₂ b₂) :
    All2 R (a₁ ++ a₂) (b₁ ++ b₂) := by
  induction h1 with
  | nil => exact h2
  | cons r _ ih => exact .cons r ih

def MemberMatch (F : Facts) (v2 : Bool) (u : U) (m : Str × Bool × Str × Nat) (f : GField) : Prop :=
  m.1 = f.name ∧ m.2.1 = f.embedded ∧ m.2.2.1 = f.tag ∧ Res F v2 u f.ty m.2.2.2

def ParamMatch (F : Facts) (v2 : Bool) (u : U) (p : Str × Nat) (q : Str × Nat) : Prop :=
  p.1 = q.1 ∧ Res F v2 u q.2 p.2

def ElemIs (F : Facts) (v2 : Bool) (u : U) (x : Option Nat) (c : Nat) : Prop := ∃ r, x = some r ∧ Res F v2 u c r

/-- what is known about the object `oc` that a walk of kid `k` returned: walked without a name it stands for the kid's
node; walked under a given name (a method's signature) it is the object registered under that name -/
def KidRes (F : Facts) (v2 : Bool) (u : U) (k : Nat × Option Name × Setter) (oc : Nat) : Prop :=
  (k.2.1 = none → Res F v2 u k.1 oc) ∧
  (∀ n, k.2.1 = some n → (∃ K kids, shape v2 (F.node k.1) = some (K, kids)) → AL.lookup n u.types = some oc)

/-- the method table `obm` of an object is what the method list `ms` says: every method of the list is there, standing for
the object registered under the method's printed name (`func (T).M(…) …`), and nothing else is -/
def MethodsMatch (F : Facts) (v2 : Bool) (u : U) (obm : List (Str × Nat)) (ms : List GMethod) : Prop :=
  (∀ m ∈ ms, ∃ r, AL.lookup m.name obm = some r ∧ AL.lookup (nameOf v2 m.str) u.types = some r) ∧
  (∀ (k : Str) (r : Nat), AL.lookup k obm = some r → ∃ m ∈ ms, m.name = k)

theorem MethodsMatch.mono {F : Facts} {v2 : Bool} {u u' : U} {obm : List (Str × Nat)} {ms : List GMethod}
    (h : MethodsMatch F v2 u obm ms) (hg : Grows u u') : MethodsMatch F v2 u' obm ms :=
  ⟨fun m hm => by obtain ⟨r, h1, h2⟩ := h.1 m hm; exact ⟨r, h1, hg.idx _ _ h2⟩, h.2⟩

/-- object `ob` is what node `g` says -/
def Desc (F : Facts) (v2 : Bool) (u : U) (ob : Obj) (g : Nat) : Prop :=
  match F.node g with
  | .pointer e => ob.kind = .pointer ∧ ElemIs F v2 u ob.elem e
  | .slice e => ob.kind = .slice ∧ ElemIs F v2 u ob.elem e
  | .array len e => ob.kind = .array ∧ ob.len = len ∧ ElemIs F v2 u ob.elem e
  | .chan e => ob.kind = .chan ∧ ElemIs F v2 u ob.elem e
  | .map k e => ob.kind = .map ∧ ElemIs F v2 u ob.elem e ∧ ElemIs F v2 u ob.key k
  | .struct fs => ob.kind = .struct ∧ All2 (MemberMatch F v2 u) ob.members fs
  | .sig ps rs va recv => ob.kind = .func ∧ ob.hasSig = true ∧ ob.variadic = va ∧
      All2 (ParamMatch F v2 u) ob.params ps ∧ All2 (ParamMatch F v2 u) ob.results rs ∧
      (match recv with
        | some rc => ElemIs F v2 u ob.recv rc
        | none => ob.recv = none)
  | .iface ms => ob.kind = .iface ∧ (ms ≠ [] → MethodsMatch F v2 u ob.methods ms)
  | .named und _ _ _ => ob.kind = .alias ∧ ElemIs F v2 u ob.under und
  | .basic _ => ob.kind = .unsupported
  | .other => ob.kind = .unsupported
  | .alias _ => False                       -- the walk passes through alias nodes: nothing is filled from one
  | .tparam _ => ob.kind = .typeParam

theorem ElemIs.mono {F : Facts} {v2 : Bool} {u u' : U} {x : Option Nat} {c : Nat} (h : ElemIs F v2 u x c) (hg : Grows u u') :
    ElemIs F v2 u' x c := by
  obtain ⟨r, h1, h2⟩ := h; exact ⟨r, h1, h2.mono hg⟩

theorem Desc.mono {F : Facts} {v2 : Bool} {u u' : U} {ob : Obj} {g : Nat} (h : Desc F v2 u ob g) (hg : Grows u u') :
    Desc F v2 u' ob g := by
  unfold Desc at h ⊢
  cases hn : F.node g with
  | pointer e => simp only [hn] at h ⊢; exact ⟨h.1, h.2.mono hg⟩
  | slice e => simp only [hn] at h ⊢; exact ⟨h.1, h.2.mono hg⟩
  | array len e => simp only [hn] at h ⊢; exact ⟨h.1, h.2.1, h.2.2.mono hg⟩
  | chan e => simp only [hn] at h ⊢; exact ⟨h.1, h.2.mono hg⟩
  | map k e => simp only [hn] at h ⊢; exact ⟨h.1, h.2.1.mono hg, h.2.2.mono hg⟩
  | struct fs =>
    simp only [hn] at h ⊢
    exact ⟨h.1, h.2.imp (fun _ _ hm => ⟨hm.1, hm.2.1, hm.2.2.1, hm.2.2.2.mono hg⟩)⟩
  | sig ps rs va recv =>
    simp only [hn] at h ⊢
    refine ⟨h.1, h.2.1, h.2.2.1, h.2.2.2.1.imp (fun _ _ hm => ⟨hm.1, hm.2.mono hg⟩),
      h.2.2.2.2.1.imp (fun _ _ hm => ⟨hm.1, hm.2.mono hg⟩), ?_⟩
    have hr := h.2.2.2.2.2
    cases recv with
    | some rc => exact ElemIs.mono hr hg
    | none => exact hr
  | iface ms => simp only [hn] at h ⊢; exact ⟨h.1, fun hne => (h.2 hne).mono hg⟩
  | named und ms tps ou => simp only [hn] at h ⊢; exact ⟨h.1, h.2.mono hg⟩
  | basic nm => simp only [hn] at h ⊢; exact h
  | other => simp only [hn] at h ⊢; exact h
  | alias t => simp only [hn] at h
  | tparam c => simp only [hn] at h ⊢; exact h

/-- objects without a kind are bare markers -/
def Bare (u : U) : Prop := ∀ (o : Nat) (ob : Obj), u.objs[o]? = some ob → ob.kind = .unknown →
  ob.elem = none ∧ ob.key = none ∧ ob.under = none ∧ ob.recv = none ∧ ob.members = [] ∧ ob.params = [] ∧
  ob.results = [] ∧ ob.len = 0 ∧ ob.hasSig = false ∧ ob.variadic = false ∧ ob.src = none ∧ ob.methods = []

/-- what the methods phase of the defined type `g'` left in object `ob`: unless it found methods already there (the object
of an interface, described by `Desc`), the method table is the defined type's method set -/
def MDesc (F : Facts) (v2 : Bool) (u : U) (ob : Obj) (g' : Nat) : Prop :=
  ∃ und ms tps ou, F.node g' = .named und ms tps ou ∧ (ob.nskip = false → MethodsMatch F v2 u ob.methods ms)

theorem MDesc.mono {F : Facts} {v2 : Bool} {u u' : U} {ob : Obj} {g' : Nat} (h : MDesc F v2 u ob g') (hg : Grows u u') :
    MDesc F v2 u' ob g' := by
  obtain ⟨und, ms, tps, ou, hn, hm⟩ := h
  exact ⟨und, ms, tps, ou, hn, fun hs => (hm hs).mono hg⟩

/-- the methods half of the description invariant: an object without a kind has had no methods phase; an object whose
methods phase ran for a defined type (and is not still in it: `P`) carries that type's methods -/
structure MethInv (F : Facts) (v2 : Bool) (u : U) (P : List Nat) : Prop where
  fresh : ∀ (o : Nat) (ob : Obj), u.objs[o]? = some ob → ob.kind = .unknown → ob.nsrc = none
  mdesc : ∀ (o : Nat) (ob : Obj) (g' : Nat), u.objs[o]? = some ob → ob.nsrc = some g' → o ∈ P ∨ MDesc F v2 u ob g'

theorem MethInv.weaken {F : Facts} {v2 : Bool} {u : U} {P : List Nat} (o : Nat) (h : MethInv F v2 u P) : MethInv F v2 u (o :: P) :=
  ⟨h.fresh, fun x ob g hx hs => by
    rcases h.mdesc x ob g hx hs with hp | hd
    · exact .inl (List.mem_cons_of_mem _ hp)
    · exact .inr hd⟩

/-- the owner leaves the stack: its methods phase has not run, or what it left is as described -/
theorem MethInv.pop {F : Facts} {v2 : Bool} {u : U} {P : List Nat} {o : Nat} (h : MethInv F v2 u (o :: P))
    (ho : ∀ (ob : Obj) (g' : Nat), u.objs[o]? = some ob → ob.nsrc = some g' → o ∈ P ∨ MDesc F v2 u ob g') : MethInv F v2 u P :=
  ⟨h.fresh, fun x ob g hx hs => by
    by_cases hox : o = x
    · subst hox; exact ho ob g hx hs
    · rcases h.mdesc x ob g hx hs with hp | hd
      · rcases List.mem_cons.mp hp with rfl | hp
        · exact absurd rfl hox
        · exact .inl hp
      · exact .inr hd⟩

theorem MethInv.same {F : Facts} {v2 : Bool} {u u' : U} {P : List Nat} (ho : u'.objs = u.objs) (hg : Grows u u')
    (h : MethInv F v2 u P) : MethInv F v2 u' P :=
  ⟨fun o ob hob hk => by rw [ho] at hob; exact h.fresh o ob hob hk, fun o ob g hob hs => by
    rw [ho] at hob
    rcases h.mdesc o ob g hob hs with hp | hd
    · exact .inl hp
    · exact .inr (hd.mono hg)⟩

/-- appending an object whose methods phase has not run -/
theorem MethInv.newObj {F : Facts} {v2 : Bool} {u : U} {P : List Nat} (ob0 : Obj) (hg : Grows u (u.newObj ob0).1)
    (h0 : ob0.nsrc = none) (h : MethInv F v2 u P) : MethInv F v2 (u.newObj ob0).1 P := by
  refine ⟨?_, ?_⟩
  · intro o ob hob hk
    have hob' : (u.objs ++ [ob0])[o]? = some ob := hob
    rcases getElem?_append_new _ _ _ _ hob' with hold | ⟨_, rfl⟩
    · exact h.fresh o ob hold hk
    · exact h0
  · intro o ob g hob hs
    have hob' : (u.objs ++ [ob0])[o]? = some ob := hob
    rcases getElem?_append_new _ _ _ _ hob' with hold | ⟨_, rfl⟩
    · rcases h.mdesc o ob g hold hs with hp | hd
      · exact .inl hp
      · exact .inr (hd.mono hg)
    · rw [h0] at hs; cases hs

/-- an update that keeps the ghost fields and the method table of the object, and does not take its kind away -/
theorem MethInv.modify_keep {F : Facts} {v2 : Bool} {u : U} {o : Nat} {f : Obj → Obj} {P : List Nat}
    (hg : Grows u (u.modify o f))
    (hf : ∀ ob : Obj, (f ob).nsrc = ob.nsrc ∧ (f ob).nskip = ob.nskip ∧ (f ob).methods = ob.methods ∧
      ((f ob).kind = .unknown → ob.kind = .unknown))
    (h : MethInv F v2 u P) : MethInv F v2 (u.modify o f) P := by
  refine ⟨?_, ?_⟩
  · intro x ob hx hk
    by_cases hox : o = x
    · subst hox
      cases h0 : u.objs[o]? with
      | none =>
        have : (u.modify o f).objs[o]? = none := by simp [U.modify, h0]
        rw [this] at hx; cases hx
      | some ob0 =>
        rw [modify_get_eq h0] at hx; cases hx
        rw [(hf ob0).1]; exact h.fresh o ob0 h0 ((hf ob0).2.2.2 hk)
    · rw [modify_get_ne hox] at hx; exact h.fresh x ob hx hk
  · intro x ob g hx hs
    by_cases hox : o = x
    · subst hox
      cases h0 : u.objs[o]? with
      | none =>
        have : (u.modify o f).objs[o]? = none := by simp [U.modify, h0]
        rw [this] at hx; cases hx
      | some ob0 =>
        rw [modify_get_eq h0] at hx; cases hx
        obtain ⟨e1, e2, e3, _⟩ := hf ob0
        rcases h.mdesc o ob0 g h0 (by rw [← e1]; exact hs) with hp | hd
        · exact .inl hp
        · right
          obtain ⟨und, ms, tps, ou, hn, hm⟩ := hd.mono hg
          exact ⟨und, ms, tps, ou, hn, fun hsk => by rw [e3]; exact hm (by rw [← e2]; exact hsk)⟩
    · rw [modify_get_ne hox] at hx
      rcases h.mdesc x ob g hx hs with hp | hd
      · exact .inl hp
      · exact .inr (hd.mono hg)

/-- any update of an object that is on the stack and keeps (or gets) a kind -/
theorem MethInv.modify_pending {F : Facts} {v2 : Bool} {u : U} {o : Nat} {f : Obj → Obj} {P : List Nat}
    (hg : Grows u (u.modify o f)) (hk : ∀ ob : Obj, u.objs[o]? = some ob → (f ob).kind ≠ .unknown) (hP : o ∈ P)
    (h : MethInv F v2 u P) : MethInv F v2 (u.modify o f) P := by
  refine ⟨?_, ?_⟩
  · intro x ob hx hkx
    by_cases hox : o = x
    · subst hox
      cases h0 : u.objs[o]? with
      | none =>
        have : (u.modify o f).objs[o]? = none := by simp [U.modify, h0]
        rw [this] at hx; cases hx
      | some ob0 =>
        rw [modify_get_eq h0] at hx; cases hx
        exact absurd hkx (hk ob0 h0)
    · rw [modify_get_ne hox] at hx; exact h.fresh x ob hx hkx
  · intro x ob g hx hs
    by_cases hox : o = x
    · subst hox; exact .inl hP
    · rw [modify_get_ne hox] at hx
      rcases h.mdesc x ob g hx hs with hp | hd
      · exact .inl hp
      · exact .inr (hd.mono hg)

/-- every filled object that is not still being filled (`P`: the owners on the call stack) is described by its node -/
structure DInv (F : Facts) (v2 : Bool) (u : U) (P : List Nat) : Prop where
  bare : Bare u
  desc : ∀ (o : Nat) (ob : Obj) (g : Nat), u.objs[o]? = some ob → ob.src = some g → o ∈ P ∨ Desc F v2 u ob g
  meth : MethInv F v2 u P

theorem DInv.weaken {F : Facts} {v2 : Bool} {u : U} {P : List Nat} (o : Nat) (h : DInv F v2 u P) : DInv F v2 u (o :: P) :=
  ⟨h.bare, fun x ob g hx hs => by
    rcases h.desc x ob g hx hs with hp | hd
    · exact .inl (List.mem_cons_of_mem _ hp)
    · exact .inr hd, h.meth.weaken o⟩

/-- objects that have a kind are not touched -/
def Frozen (u u' : U) : Prop := ∀ (o : Nat) (ob : Obj), u.objs[o]? = some ob → ob.kind ≠ .unknown → u'.objs[o]? = some ob

def FrozenExcept (x : Nat) (u u' : U) : Prop :=
  ∀ (o : Nat) (ob : Obj), o ≠ x → u.objs[o]? = some ob → ob.kind ≠ .unknown → u'.objs[o]? = some ob

theorem Frozen.refl (u : U) : Frozen u u := fun _ _ h _ => h
theorem Frozen.trans {a b c : U} (h1 : Frozen a b) (h2 : Frozen b c) : Frozen a c :=
  fun o ob h hk => h2 o ob (h1 o ob h hk) hk

/-! ## primitive steps -/

/-- `u.Type(n)` only appends: every existing object stays as it is -/
theorem type_keeps (bt : List Builtin) (u : U) (n : Name) (o : Nat) (ob : Obj) (h : u.objs[o]? = some ob) :
    (U.type bt u n).1.objs[o]? = some ob := by
  unfold U.type
  have hp := (package_objs u n.pkg).1
  cases hl : AL.lookup n u.types with
  | some x => exact h
  | none =>
    simp only
    cases hb : (if n.pkg.isEmpty = true then bt.find? (fun b => b.key = n.name) else none) with
    | none => simp only [U.newObj]; rw [hp]; exact getElem?_append_old _ _ _ _ h
    | some b =>
      simp only
      cases hbo : AL.lookup b.var (u.package n.pkg).builtinObjs with
      | some x => simp only; rw [hp]; exact h
      | none => simp only [U.newObj]; rw [hp]; exact getElem?_append_old _ _ _ _ h

/-- a freshly created object: no attribute is set -/
def IsFresh (ob : Obj) : Prop :=
  ob.elem = none ∧ ob.key = none ∧ ob.under = none ∧ ob.recv = none ∧ ob.members = [] ∧ ob.params = [] ∧
  ob.results = [] ∧ ob.len = 0 ∧ ob.hasSig = false ∧ ob.variadic = false ∧ ob.src = none ∧ ob.methods = []

/-- the objects after `u.Type(n)`: the old ones, or one fresh object -/
theorem type_new (bt : List Builtin) (u : U) (n : Name) (o : Nat) (ob : Obj) (h : (U.type bt u n).1.objs[o]? = some ob) :
    u.objs[o]? = some ob ∨ IsFresh ob := by
  unfold U.type at h
  have hp := (package_objs u n.pkg).1
  cases hl : AL.lookup n u.types with
  | some x => simp only [hl] at h; exact .inl h
  | none =>
    simp only [hl] at h
    cases hb : (if n.pkg.isEmpty = true then bt.find? (fun b => b.key = n.name) else none) with
    | none =>
      simp only [hb, U.newObj] at h
      rw [hp] at h
      rcases getElem?_append_new _ _ _ _ h with hold | ⟨_, rfl⟩
      · exact .inl hold
      · exact .inr ⟨rfl, rfl, rfl, rfl, rfl, rfl, rfl, rfl, rfl, rfl, rfl, rfl⟩
    | some b =>
      simp only [hb] at h
      cases hbo : AL.lookup b.var (u.package n.pkg).builtinObjs with
      | some x => simp only [hbo] at h; rw [hp] at h; exact .inl h
      | none =>
        simp only [hbo, U.newObj] at h
        rw [hp] at h
        rcases getElem?_append_new _ _ _ _ h with hold | ⟨_, rfl⟩
        · exact .inl hold
        · exact .inr ⟨rfl, rfl, rfl, rfl, rfl, rfl, rfl, rfl, rfl, rfl, rfl, rfl⟩

/-- the objects after `u.Type(n)`: the old ones, or an object whose methods phase has not run -/
theorem type_new_ghost (bt : List Builtin) (u : U) (n : Name) (o : Nat) (ob : Obj) (h : (U.type bt u n).1.objs[o]? = some ob) :
    u.objs[o]? = some ob ∨ ob.nsrc = none := by
  unfold U.type at h
  have hp := (package_objs u n.pkg).1
  cases hl : AL.lookup n u.types with
  | some x => simp only [hl] at h; exact .inl h
  | none =>
    simp only [hl] at h
    cases hb : (if n.pkg.isEmpty = true then bt.find? (fun b => b.key = n.name) else none) with
    | none =>
      simp only [hb, U.newObj] at h
      rw [hp] at h
      rcases getElem?_append_new _ _ _ _ h with hold | ⟨_, rfl⟩
      · exact .inl hold
      · exact .inr rfl
    | some b =>
      simp only [hb] at h
      cases hbo : AL.lookup b.var (u.package n.pkg).builtinObjs with
      | some x => simp only [hbo] at h; rw [hp] at h; exact .inl h
      | none =>
        simp only [hbo, U.newObj] at h
        rw [hp] at h
        rcases getElem?_append_new _ _ _ _ h with hold | ⟨_, rfl⟩
        · exact .inl hold
        · exact .inr rfl

theorem MethInv.type {F : Facts} {v2 : Bool} {bt : List Builtin} {u : U} {P : List Nat} (n : Name) (hi : WalkInv.Inv bt u)
    (h : MethInv F v2 u P) : MethInv F v2 (U.type bt u n).1 P := by
  have hg := (type_inv (bt := bt) n hi).2.1
  refine ⟨?_, ?_⟩
  · intro o ob hob hk
    rcases type_new_ghost bt u n o ob hob with hold | hn
    · exact h.fresh o ob hold hk
    · exact hn
  · intro o ob g hob hs
    rcases type_new_ghost bt u n o ob hob with hold | hn
    · rcases h.mdesc o ob g hold hs with hp | hd
      · exact .inl hp
      · exact .inr (hd.mono hg)
    · rw [hn] at hs; cases hs

theorem type_frozen (bt : List Builtin) (u : U) (n : Name) : Frozen u (U.type bt u n).1 :=
  fun o ob h _ => type_keeps bt u n o ob h

/-- `u.Type(n)` keeps the description invariant -/
theorem type_dinv {F : Facts} {v2 : Bool} {bt : List Builtin} {u : U} {P : List Nat} (n : Name) (hi : WalkInv.Inv bt u)
    (h : DInv F v2 u P) : DInv F v2 (U.type bt u n).1 P := by
  have hg := (type_inv (bt := bt) n hi).2.1
  refine ⟨?_, ?_, MethInv.type n hi h.meth⟩
  · intro o ob hob hk
    rcases type_new bt u n o ob hob with hold | hf
    · exact h.bare o ob hold hk
    · exact hf
  · intro o ob g hob hs
    rcases type_new bt u n o ob hob with hold | hf
    · rcases h.desc o ob g hold hs with hp | hd
      · exact .inl hp
      · exact .inr (hd.mono hg)
    · rw [hf.2.2.2.2.2.2.2.2.2.2.1] at hs; cases hs

/-! ## `modify` -/

theorem modify_frozenExcept (u : U) (o : Nat) (f : Obj → Obj) : FrozenExcept o u (u.modify o f) := by
  intro x ob hx h _
  rw [modify_get_ne (Ne.symm hx)]; exact h

/-- modifying an object that is on the pending stack (its kind stays or becomes known) -/
theorem modify_dinv {F : Facts} {v2 : Bool} {u : U} {o : Nat} {f : Obj → Obj} {P : List Nat}
    (hg : Grows u (u.modify o f)) (hk : ∀ ob : Obj, u.objs[o]? = some ob → (f ob).kind ≠ .unknown) (hP : o ∈ P)
    (h : DInv F v2 u P) : DInv F v2 (u.modify o f) P := by
  refine ⟨?_, ?_, h.meth.modify_pending hg hk hP⟩
  · intro x ob hx hkx
    by_cases hox : o = x
    · subst hox
      cases h0 : u.objs[o]? with
      | none =>
        have : (u.modify o f).objs[o]? = none := by simp [U.modify, h0]
        rw [this] at hx; cases hx
      | some ob0 =>
        rw [modify_get_eq h0] at hx; cases hx
        exact absurd hkx (hk ob0 h0)
    · rw [modify_get_ne hox] at hx; exact h.bare x ob hx hkx
  · intro x ob g hx hs
    by_cases hox : o = x
    · subst hox; exact .inl hP
    · rw [modify_get_ne hox] at hx
      rcases h.desc x ob g hx hs with hp | hd
      · exact .inl hp
      · exact .inr (hd.mono hg)

/-! ## `runKids` -/

def applySetters (ob : Obj) : List (Nat × Option Name × Setter) → List Nat → Obj
  | (_, _, set) :: ks, x :: xs => applySetters (set.apply ob x) ks xs
  | _, _ => ob

/-- the description half of what a successful walk guarantees -/
def WalkDescOK (F : Facts) (v2 : Bool) (bt : List Builtin) (w : U → Nat → Option Name → Option (U × Nat)) : Prop :=
  ∀ u c un u' oc P, WalkInv.Inv bt u → DInv F v2 u P → w u c un = some (u', oc) →
    DInv F v2 u' P ∧ Frozen u u' ∧ (un = none → Res F v2 u' c oc) ∧
    (∀ n, un = some n → (∃ K kids, shape v2 (F.node c) = some (K, kids)) → AL.lookup n u'.types = some oc)

theorem runKids_desc {F : Facts} {v2 : Bool} {bt : List Builtin} {w : U → Nat → Option Name → Option (U × Nat)}
    (hw : WalkOK bt w) (hd : WalkDescOK F v2 bt w) (o : Nat) (P : List Nat) :
    ∀ (kids : List (Nat × Option Name × Setter)) (u : U) (ob0 : Obj) (u' : U),
      WalkInv.Inv bt u → DInv F v2 u (o :: P) → u.objs[o]? = some ob0 → ob0.kind ≠ .unknown →
      runKids w o u kids = some u' →
      DInv F v2 u' (o :: P) ∧ FrozenExcept o u u' ∧ Grows u u' ∧
      ∃ ocs : List Nat, ocs.length = kids.length ∧ u'.objs[o]? = some (applySetters ob0 kids ocs) ∧
        All2 (KidRes F v2 u') kids ocs := by
  intro kids
  induction kids with
  | nil =>
    intro u ob0 u' _ hdi hob _ hr
    simp only [runKids, Option.some.injEq] at hr
    subst hr
    exact ⟨hdi, fun _ _ _ h _ => h, Grows.refl _, [], rfl, by simpa [applySetters] using hob, .nil⟩
  | cons k ks ih =>
    intro u ob0 u' hi hdi hob hk0 hr
    obtain ⟨c, un, set⟩ := k
    simp only [runKids] at hr
    cases hwc : w u c un with
    | none => simp [hwc] at hr
    | some p =>
      obtain ⟨u1, oc⟩ := p
      simp only [hwc] at hr
      have p1 := hw u c un u1 oc hi hwc
      obtain ⟨d1, f1, r1, r1'⟩ := hd u c un u1 oc (o :: P) hi hdi hwc
      have hob1 : u1.objs[o]? = some ob0 := f1 o ob0 hob hk0
      obtain ⟨i2, g2⟩ := modify_inv (o := o) (setter_goodUpdate u1 o set oc p1.good) p1.inv
      have d2 : DInv F v2 (u1.modify o (fun ob => set.apply ob oc)) (o :: P) :=
        modify_dinv g2 (fun ob' h' => by rw [hob1] at h'; cases h'; rw [(setter_meta set ob0 oc).2]; exact hk0)
          List.mem_cons_self d1
      have hob2 : (u1.modify o (fun ob => set.apply ob oc)).objs[o]? = some (set.apply ob0 oc) := modify_get_eq hob1
      have hk2 : (set.apply ob0 oc).kind ≠ .unknown := by rw [(setter_meta set ob0 oc).2]; exact hk0
      obtain ⟨d3, fe3, g3, ocs, hlen, hobf, hall⟩ := ih _ _ _ i2 d2 hob2 hk2 hr
      refine ⟨d3, ?_, p1.grows.trans (g2.trans g3), oc :: ocs, by simp [hlen], by simpa [applySetters] using hobf, ?_⟩
      · intro x obx hxo hx hkx
        have h1 := f1 x obx hx hkx
        have h2 : (u1.modify o (fun ob => set.apply ob oc)).objs[x]? = some obx := by
          rw [modify_get_ne (Ne.symm hxo)]; exact h1
        exact fe3 x obx hxo h2 hkx
      · exact .cons ⟨fun hun => (r1 hun).mono (g2.trans g3), fun n hn hsh => (g2.trans g3).idx _ _ (r1' n hn hsh)⟩ hall

theorem setter_ghost (set : Setter) (ob : Obj) (x : Nat) : (set.apply ob x).nsrc = ob.nsrc ∧ (set.apply ob x).nskip = ob.nskip := by
  cases set <;> exact ⟨rfl, rfl⟩

theorem applySetters_ghost (ob : Obj) : ∀ (kids : List (Nat × Option Name × Setter)) (xs : List Nat),
    (applySetters ob kids xs).nsrc = ob.nsrc ∧ (applySetters ob kids xs).nskip = ob.nskip := by
  intro kids
  induction kids generalizing ob with
  | nil => intro xs; simp [applySetters]
  | cons k ks ih =>
    intro xs
    obtain ⟨c, un, set⟩ := k
    cases xs with
    | nil => simp [applySetters]
    | cons x xs =>
      simp only [applySetters]
      have h := ih (set.apply ob x) xs
      exact ⟨h.1.trans (setter_ghost set ob x).1, h.2.trans (setter_ghost set ob x).2⟩

theorem markFields_ghost (gn : GNode) (ob : Obj) :
    (markFields gn ob).nsrc = ob.nsrc ∧ (markFields gn ob).nskip = ob.nskip ∧ (markFields gn ob).methods = ob.methods := by
  cases gn <;> exact ⟨rfl, rfl, rfl⟩

/-! ## `fill` -/

theorem applySetters_meta (ob : Obj) : ∀ (kids : List (Nat × Option Name × Setter)) (xs : List Nat),
    (applySetters ob kids xs).name = ob.name ∧ (applySetters ob kids xs).kind = ob.kind ∧ (applySetters ob kids xs).src = ob.src ∧
    (applySetters ob kids xs).len = ob.len ∧ (applySetters ob kids xs).hasSig = ob.hasSig ∧ (applySetters ob kids xs).variadic = ob.variadic := by
  intro kids
  induction kids generalizing ob with
  | nil => intro xs; simp [applySetters]
  | cons k ks ih =>
    intro xs
    obtain ⟨c, un, set⟩ := k
    cases xs with
    | nil => simp [applySetters]
    | cons x xs =>
      simp only [applySetters]
      have h := ih (set.apply ob x) xs
      have hs : (set.apply ob x).name = ob.name ∧ (set.apply ob x).kind = ob.kind ∧ (set.apply ob x).src = ob.src ∧
          (set.apply ob x).len = ob.len ∧ (set.apply ob x).hasSig = ob.hasSig ∧ (set.apply ob x).variadic = ob.variadic := by
        cases set <;> exact ⟨rfl, rfl, rfl, rfl, rfl, rfl⟩
      exact ⟨h.1.trans hs.1, h.2.1.trans hs.2.1, h.2.2.1.trans hs.2.2.1, h.2.2.2.1.trans hs.2.2.2.1,
        h.2.2.2.2.1.trans hs.2.2.2.2.1, h.2.2.2.2.2.trans hs.2.2.2.2.2⟩

/-- `fill`: if the node's shape is matched by a fresh object with the children's objects stored (`hmatch`), the
description invariant is kept and the result stands for the name it was filled under -/
theorem fill_desc {F : Facts} {v2 : Bool} {bt : List Builtin} {w : U → Nat → Option Name → Option (U × Nat)}
    (hw : WalkOK bt w) (hd : WalkDescOK F v2 bt w) (u : U) (n : Name) (g : Nat) (gn : GNode) (K : Kind) (hK : K ≠ .unknown)
    (kids : List (Nat × Option Name × Setter)) (P : List Nat)
    (hmatch : ∀ (u3 : U) (ob : Obj) (ocs : List Nat), IsFresh { ob with src := none } → ob.kind = K →
        ocs.length = kids.length →
        All2 (KidRes F v2 u3) kids ocs →
        Desc F v2 u3 (applySetters (markFields gn ob) kids ocs) g)
    (u' : U) (o : Nat) (hi : WalkInv.Inv bt u) (hdi : DInv F v2 u P)
    (hf : fill bt w u n g gn K kids = some (u', o)) :
    DInv F v2 u' P ∧ Frozen u u' ∧ AL.lookup n u'.types = some o := by
  have hidx := fill_idx hw u n g gn K kids u' o hi hf
  unfold fill at hf
  obtain ⟨h1, g1, l1⟩ := type_inv (bt := bt) n hi
  have d1 := type_dinv (F := F) (v2 := v2) (P := P) n hi hdi
  have f1 := type_frozen bt u n
  obtain ⟨ob1, hob1, _⟩ := h1.nameOK n _ l1
  by_cases hk : (U.type bt u n).1.kind (U.type bt u n).2 ≠ .unknown
  · simp only [hk, ne_eq, not_false_eq_true, if_true, Option.some.injEq] at hf
    have e1 : (U.type bt u n).1 = u' := by rw [hf]
    rw [e1] at d1 f1
    exact ⟨d1, f1, hidx⟩
  · simp only [hk, if_false] at hf
    have hunk : (U.type bt u n).1.kind (U.type bt u n).2 = .unknown := by simpa using hk
    have hunk1 : ob1.kind = .unknown := by rw [kind_of_obj hob1] at hunk; exact hunk
    have hbare := d1.bare _ ob1 hob1 hunk1
    obtain ⟨h2, g2⟩ := modify_inv (o := (U.type bt u n).2)
      (mark_goodUpdate _ _ (fun ob => markFields gn { ob with kind := K, src := some g }) hunk
        (fun ob => ⟨(markFields_meta gn _).1, (markFields_meta gn _).2.2⟩)) h1
    have d2 : DInv F v2 ((U.type bt u n).1.modify (U.type bt u n).2 (fun ob => markFields gn { ob with kind := K, src := some g }))
        ((U.type bt u n).2 :: P) := by
      refine modify_dinv g2 (fun ob' _ => by rw [(markFields_meta gn _).2.1]; exact hK) List.mem_cons_self ?_
      exact d1.weaken _
    cases hr : runKids w (U.type bt u n).2 ((U.type bt u n).1.modify (U.type bt u n).2 (fun ob => markFields gn { ob with kind := K, src := some g })) kids with
    | none => simp [hr] at hf
    | some u3 =>
      simp only [hr, Option.some.injEq, Prod.mk.injEq] at hf
      obtain ⟨rfl, rfl⟩ := hf
      have hob2 := modify_get_eq (f := fun ob => markFields gn { ob with kind := K, src := some g }) hob1
      have hk2 : (markFields gn { ob1 with kind := K, src := some g }).kind ≠ .unknown := by
        rw [(markFields_meta gn _).2.1]; exact hK
      obtain ⟨d3, fe3, g3, ocs, hlen, hobf, hall⟩ := runKids_desc hw hd _ P kids _ _ _ h2 d2 hob2 hk2 hr
      -- the methods phase of the object has not run: it had no kind a moment ago
      have hmeth3 : MethInv F v2 u3 P := d3.meth.pop (fun ob g' hx hs => by
        rw [hobf] at hx; cases hx
        rw [(applySetters_ghost _ kids ocs).1, (markFields_ghost gn _).1] at hs
        have : ob1.nsrc = none := d1.meth.fresh _ ob1 hob1 hunk1
        simp only at hs
        rw [this] at hs; cases hs)
      refine ⟨⟨d3.bare, ?_, hmeth3⟩, ?_, hidx⟩
      · intro x obx gx hx hs
        by_cases hox : (U.type bt u n).2 = x
        · subst hox
          rw [hobf] at hx; cases hx
          right
          -- the source of the finished object is the node it was marked with
          have hmeta := applySetters_meta (markFields gn { ob1 with kind := K, src := some g }) kids ocs
          have hsrc : (markFields gn { ob1 with kind := K, src := some g }).src = some g := by
            cases gn <;> rfl
          rw [hmeta.2.2.1, hsrc] at hs
          cases hs
          exact hmatch u3 { ob1 with kind := K, src := some g } ocs
            ⟨hbare.1, hbare.2.1, hbare.2.2.1, hbare.2.2.2.1, hbare.2.2.2.2.1, hbare.2.2.2.2.2.1, hbare.2.2.2.2.2.2.1,
              hbare.2.2.2.2.2.2.2.1, hbare.2.2.2.2.2.2.2.2.1, hbare.2.2.2.2.2.2.2.2.2.1, rfl, hbare.2.2.2.2.2.2.2.2.2.2.2⟩ rfl hlen hall
        · rcases d3.desc x obx gx hx hs with hp | hdd
          · rcases List.mem_cons.mp hp with rfl | hp
            · exact absurd rfl hox
            · exact .inl hp
          · exact .inr hdd
      · intro x ob hx hkx
        have hx1 := f1 x ob hx hkx
        have hne : (U.type bt u n).2 ≠ x := by
          intro e; subst e
          rw [hob1] at hx1; cases hx1
          exact hkx hunk1
        have hx2 : ((U.type bt u n).1.modify (U.type bt u n).2 (fun ob => markFields gn { ob with kind := K, src := some g })).objs[x]? = some ob := by
          rw [modify_get_ne hne]; exact hx1
        exact fe3 x ob (Ne.symm hne) hx2 hkx

/-! ## the shapes -/

theorem All2.split {α β : Type} {R : α → β → Prop} : ∀ (a b : List α) (l : List β), All2 R (a ++ b) l →
    ∃ l1 l2, l = l1 ++ l2 ∧ All2 R a l1 ∧ All2 R b l2 := by
  intro a
  induction a with
  | nil => intro b l h; exact ⟨[], l, rfl, .nil, h⟩
  | cons x xs ih =>
    intro b l h
    cases h with
    | cons hr hrest =>
      obtain ⟨l1, l2, e, h1, h2⟩ := ih b _ hrest
      exact ⟨_ :: l1, l2, by rw [e]; rfl, .cons hr h1, h2⟩

theorem All2.length {α β : Type} {R : α → β → Prop} {a : List α} {l : List β} (h : All2 R a l) : a.length = l.length := by
  induction h with
  | nil => rfl
  | cons _ _ ih => simp [ih]

theorem applySetters_append (k1 k2 : List (Nat × Option Name × Setter)) : ∀ (ob : Obj) (l1 l2 : List Nat), k1.length = l1.length →
    applySetters ob (k1 ++ k2) (l1 ++ l2) = applySetters (applySetters ob k1 l1) k2 l2 := by
  induction k1 with
  | nil => intro ob l1 l2 h; cases l1 with
    | nil => rfl
    | cons _ _ => simp at h
  | cons k ks ih =>
    intro ob l1 l2 h
    obtain ⟨c, un, set⟩ := k
    cases l1 with
    | nil => simp at h
    | cons x xs =>
      simp only [List.cons_append, applySetters]
      exact ih _ xs l2 (by simpa using h)

/-- the member setters append one member per field, in order; nothing else changes -/
theorem applySetters_members {F : Facts} {v2 : Bool} {u : U} : ∀ (fs : List GField) (ob : Obj) (ocs : List Nat),
    All2 (KidRes F v2 u)
      (fs.map (fun f => (f.ty, none, Setter.member f.name f.embedded f.tag))) ocs →
    ∃ ms, (applySetters ob (fs.map (fun f => (f.ty, none, Setter.member f.name f.embedded f.tag))) ocs).members = ob.members ++ ms ∧
      All2 (MemberMatch F v2 u) ms fs := by
  intro fs
  induction fs with
  | nil => intro ob ocs h; cases h; exact ⟨[], by simp [applySetters], .nil⟩
  | cons f fs ih =>
    intro ob ocs h
    cases h with
    | cons hk hrest =>
      rename_i oc ocs'
      obtain ⟨ms, hms, hall⟩ := ih ((Setter.member f.name f.embedded f.tag).apply ob oc) ocs' hrest
      refine ⟨(f.name, f.embedded, f.tag, oc) :: ms, ?_, .cons ⟨rfl, rfl, rfl, hk.1 rfl⟩ hall⟩
      simp only [List.map_cons, applySetters]
      rw [hms]
      simp [Setter.apply]

theorem applySetters_params {F : Facts} {v2 : Bool} {u : U} : ∀ (ps : List (Str × Nat)) (ob : Obj) (ocs : List Nat),
    All2 (KidRes F v2 u)
      (ps.map (fun p => (p.2, none, Setter.param p.1))) ocs →
    ∃ ms, (applySetters ob (ps.map (fun p => (p.2, none, Setter.param p.1))) ocs).params = ob.params ++ ms ∧
      All2 (ParamMatch F v2 u) ms ps ∧
      (applySetters ob (ps.map (fun p => (p.2, none, Setter.param p.1))) ocs).results = ob.results ∧
      (applySetters ob (ps.map (fun p => (p.2, none, Setter.param p.1))) ocs).recv = ob.recv := by
  intro ps
  induction ps with
  | nil => intro ob ocs h; cases h; exact ⟨[], by simp [applySetters], .nil, rfl, rfl⟩
  | cons p ps ih =>
    intro ob ocs h
    cases h with
    | cons hk hrest =>
      rename_i oc ocs'
      obtain ⟨ms, hms, hall, hr, hrc⟩ := ih ((Setter.param p.1).apply ob oc) ocs' hrest
      refine ⟨(p.1, oc) :: ms, ?_, .cons ⟨rfl, hk.1 rfl⟩ hall, ?_, ?_⟩
      · simp only [List.map_cons, applySetters]; rw [hms]; simp [Setter.apply]
      · simp only [List.map_cons, applySetters]; rw [hr]; rfl
      · simp only [List.map_cons, applySetters]; rw [hrc]; rfl

theorem applySetters_results {F : Facts} {v2 : Bool} {u : U} : ∀ (rs : List (Str × Nat)) (ob : Obj) (ocs : List Nat),
    All2 (KidRes F v2 u)
      (rs.map (fun p => (p.2, none, Setter.result p.1))) ocs →
    ∃ ms, (applySetters ob (rs.map (fun p => (p.2, none, Setter.result p.1))) ocs).results = ob.results ++ ms ∧
      All2 (ParamMatch F v2 u) ms rs ∧
      (applySetters ob (rs.map (fun p => (p.2, none, Setter.result p.1))) ocs).params = ob.params ∧
      (applySetters ob (rs.map (fun p => (p.2, none, Setter.result p.1))) ocs).recv = ob.recv := by
  intro rs
  induction rs with
  | nil => intro ob ocs h; cases h; exact ⟨[], by simp [applySetters], .nil, rfl, rfl⟩
  | cons p ps ih =>
    intro ob ocs h
    cases h with
    | cons hk hrest =>
      rename_i oc ocs'
      obtain ⟨ms, hms, hall, hr, hrc⟩ := ih ((Setter.result p.1).apply ob oc) ocs' hrest
      refine ⟨(p.1, oc) :: ms, ?_, .cons ⟨rfl, hk.1 rfl⟩ hall, ?_, ?_⟩
      · simp only [List.map_cons, applySetters]; rw [hms]; simp [Setter.apply]
      · simp only [List.map_cons, applySetters]; rw [hr]; rfl
      · simp only [List.map_cons, applySetters]; rw [hrc]; rfl

theorem obj_of_get {u : U} {o : Nat} {ob : Obj} (h : u.objs[o]? = some ob) : u.obj o = ob := by
  simp [U.obj, h]

/-- the method setters: each method name ends up bound to the object its signature's walk returned (registered under the
method's printed name), other names keep their binding -/
theorem applySetters_methods {F : Facts} {v2 : Bool} {u : U} : ∀ (ms : List GMethod) (ob : Obj) (ocs : List Nat),
    (ms.map (·.name)).Nodup → (∀ m ∈ ms, ∃ K kids, shape v2 (F.node m.sig) = some (K, kids)) →
    All2 (KidRes F v2 u) (methodKids v2 ms) ocs →
    (∀ m ∈ ms, ∃ r, AL.lookup m.name (applySetters ob (methodKids v2 ms) ocs).methods = some r ∧
      AL.lookup (nameOf v2 m.str) u.types = some r) ∧
    (∀ k : Str, (∀ m ∈ ms, m.name ≠ k) → AL.lookup k (applySetters ob (methodKids v2 ms) ocs).methods = AL.lookup k ob.methods) := by
  intro ms
  induction ms with
  | nil => intro ob ocs _ _ _; exact ⟨fun m hm => (by cases hm), fun k _ => (by simp [methodKids, applySetters])⟩
  | cons m ms ih =>
    intro ob ocs hnd hsig hall
    simp only [methodKids, List.map_cons] at hall
    cases hall with
    | cons hk hrest =>
      rename_i oc ocs'
      simp only [List.map_cons, List.nodup_cons, List.mem_map, not_exists, not_and] at hnd
      have ih' := ih ((Setter.method m.name).apply ob oc) ocs' hnd.2 (fun m' hm' => hsig m' (List.mem_cons_of_mem _ hm')) hrest
      have hstep : applySetters ob (methodKids v2 (m :: ms)) (oc :: ocs') =
          applySetters ((Setter.method m.name).apply ob oc) (methodKids v2 ms) ocs' := by
        simp [methodKids, applySetters]
      rw [hstep]
      refine ⟨?_, ?_⟩
      · intro m' hm'
        rcases List.mem_cons.mp hm' with rfl | hm'
        · refine ⟨oc, ?_, hk.2 _ rfl (hsig _ List.mem_cons_self)⟩
          rw [ih'.2 _ (fun m'' hm'' e => hnd.1 m'' hm'' e)]
          simp [Setter.apply, AL.lookup_insert]
        · exact ih'.1 m' hm'
      · intro k hk'
        rw [ih'.2 k (fun m' hm' => hk' m' (List.mem_cons_of_mem _ hm'))]
        have hne : ¬ k = m.name := fun e => hk' m List.mem_cons_self e.symm
        simp [Setter.apply, AL.lookup_insert, hne]

/-- **shape_match**: a fresh object marked with the node's kind and filled with the objects of the node's
children is described by the node -/
theorem shape_match {F : Facts} {v2 : Bool} (g : Nat) (K : Kind) (kids : List (Nat × Option Name × Setter))
    (hs : shape v2 (F.node g) = some (K, kids))
    (hmeths : ∀ ms, F.node g = .iface ms → (ms.map (·.name)).Nodup ∧ ∀ m ∈ ms, ∃ K kids, shape v2 (F.node m.sig) = some (K, kids))
    (u3 : U) (ob : Obj) (ocs : List Nat) (hf : IsFresh { ob with src := none }) (hk : ob.kind = K)
    (hlen : ocs.length = kids.length)
    (hall : All2 (KidRes F v2 u3) kids ocs) :
    Desc F v2 u3 (applySetters (markFields (F.node g) ob) kids ocs) g := by
  obtain ⟨he, hkey, hu, hrc, hm, hp, hrs, hl, hsg, hv, _, hmeth⟩ := hf
  simp only at he hkey hu hrc hm hp hrs hl hsg hv hmeth
  unfold Desc
  cases hn : F.node g with
  | pointer e =>
    simp only [hn, shape, Option.some.injEq, Prod.mk.injEq] at hs
    obtain ⟨rfl, rfl⟩ := hs
    cases hall with
    | cons h1 hr => cases hr; exact ⟨by simpa [applySetters, markFields, Setter.apply] using hk, _, by simp [applySetters, markFields, Setter.apply], h1.1 rfl⟩
  | slice e =>
    simp only [hn, shape, Option.some.injEq, Prod.mk.injEq] at hs
    obtain ⟨rfl, rfl⟩ := hs
    cases hall with
    | cons h1 hr => cases hr; exact ⟨by simpa [applySetters, markFields, Setter.apply] using hk, _, by simp [applySetters, markFields, Setter.apply], h1.1 rfl⟩
  | array len e =>
    simp only [hn, shape, Option.some.injEq, Prod.mk.injEq] at hs
    obtain ⟨rfl, rfl⟩ := hs
    cases hall with
    | cons h1 hr => cases hr; exact ⟨by simpa [applySetters, markFields, Setter.apply] using hk, by simp [applySetters, markFields, Setter.apply], _, by simp [applySetters, markFields, Setter.apply], h1.1 rfl⟩
  | chan e =>
    simp only [hn, shape, Option.some.injEq, Prod.mk.injEq] at hs
    obtain ⟨rfl, rfl⟩ := hs
    cases hall with
    | cons h1 hr => cases hr; exact ⟨by simpa [applySetters, markFields, Setter.apply] using hk, _, by simp [applySetters, markFields, Setter.apply], h1.1 rfl⟩
  | map k e =>
    simp only [hn, shape, Option.some.injEq, Prod.mk.injEq] at hs
    obtain ⟨rfl, rfl⟩ := hs
    cases hall with
    | cons h1 hr =>
      cases hr with
      | cons h2 hr2 =>
        cases hr2
        exact ⟨by simpa [applySetters, markFields, Setter.apply] using hk, ⟨_, by simp [applySetters, markFields, Setter.apply], h1.1 rfl⟩,
          ⟨_, by simp [applySetters, markFields, Setter.apply], h2.1 rfl⟩⟩
  | struct fs =>
    simp only [hn, shape, Option.some.injEq, Prod.mk.injEq] at hs
    obtain ⟨rfl, rfl⟩ := hs
    obtain ⟨ms, hms, hmm⟩ := applySetters_members (F := F) (v2 := v2) (u := u3) fs (markFields (.struct fs) ob) ocs hall
    refine ⟨by rw [(applySetters_meta _ _ _).2.1]; simpa [markFields] using hk, ?_⟩
    rw [hms]
    simpa [markFields, hm] using hmm
  | sig ps rs va recv =>
    cases recv with
    | none =>
      simp only [hn, shape, Option.some.injEq, Prod.mk.injEq] at hs
      obtain ⟨rfl, rfl⟩ := hs
      obtain ⟨l12, l3, e3, h12, h3⟩ := All2.split _ _ _ hall
      obtain ⟨l1, l2, e12, h1, h2⟩ := All2.split _ _ _ h12
      subst e3 e12
      have len1 := h1.length
      have len2 := h2.length
      rw [applySetters_append _ _ _ _ _ (by simp only [List.length_append]; omega),
        applySetters_append _ _ _ _ _ len1]
      obtain ⟨pm, hpm, hpa, hpr, hprc⟩ := applySetters_params (F := F) (v2 := v2) (u := u3) ps (markFields (.sig ps rs va none) ob) l1 h1
      obtain ⟨rm, hrm, hra, hrp, hrrc⟩ := applySetters_results (F := F) (v2 := v2) (u := u3) rs
        (applySetters (markFields (.sig ps rs va none) ob) (ps.map (fun p => (p.2, none, Setter.param p.1))) l1) l2 h2
      have m1 := applySetters_meta (markFields (.sig ps rs va none) ob) (ps.map (fun p => (p.2, none, Setter.param p.1))) l1
      have m2 := applySetters_meta (applySetters (markFields (.sig ps rs va none) ob) (ps.map (fun p => (p.2, none, Setter.param p.1))) l1)
        (rs.map (fun p => (p.2, none, Setter.result p.1))) l2
      have m3 := applySetters_meta (applySetters (applySetters (markFields (.sig ps rs va none) ob) (ps.map (fun p => (p.2, none, Setter.param p.1))) l1)
        (rs.map (fun p => (p.2, none, Setter.result p.1))) l2) [] l3
      refine ⟨by rw [m3.2.1, m2.2.1, m1.2.1]; simpa [markFields] using hk,
        by rw [m3.2.2.2.2.1, m2.2.2.2.2.1, m1.2.2.2.2.1]; simp [markFields],
        by rw [m3.2.2.2.2.2, m2.2.2.2.2.2, m1.2.2.2.2.2]; simp [markFields], ?_, ?_, ?_⟩
      · cases h3
        simp only [applySetters]
        rw [hrp, hpm]; simpa [markFields, hp] using hpa
      · cases h3
        simp only [applySetters]
        rw [hrm, hpr]; simpa [markFields, hrs] using hra
      · cases h3
        simp only [applySetters]
        rw [hrrc, hprc]; simpa [markFields] using hrc
    | some rc =>
      simp only [hn, shape, Option.some.injEq, Prod.mk.injEq] at hs
      obtain ⟨rfl, rfl⟩ := hs
      obtain ⟨l12, l3, e3, h12, h3⟩ := All2.split _ _ _ hall
      obtain ⟨l1, l2, e12, h1, h2⟩ := All2.split _ _ _ h12
      subst e3 e12
      have len1 := h1.length
      have len2 := h2.length
      rw [applySetters_append _ _ _ _ _ (by simp only [List.length_append]; omega),
        applySetters_append _ _ _ _ _ len1]
      obtain ⟨pm, hpm, hpa, hpr, hprc⟩ := applySetters_params (F := F) (v2 := v2) (u := u3) ps (markFields (.sig ps rs va (some rc)) ob) l1 h1
      obtain ⟨rm, hrm, hra, hrp, hrrc⟩ := applySetters_results (F := F) (v2 := v2) (u := u3) rs
        (applySetters (markFields (.sig ps rs va (some rc)) ob) (ps.map (fun p => (p.2, none, Setter.param p.1))) l1) l2 h2
      have m1 := applySetters_meta (markFields (.sig ps rs va (some rc)) ob) (ps.map (fun p => (p.2, none, Setter.param p.1))) l1
      have m2 := applySetters_meta (applySetters (markFields (.sig ps rs va (some rc)) ob) (ps.map (fun p => (p.2, none, Setter.param p.1))) l1)
        (rs.map (fun p => (p.2, none, Setter.result p.1))) l2
      have m3 := applySetters_meta (applySetters (applySetters (markFields (.sig ps rs va (some rc)) ob) (ps.map (fun p => (p.2, none, Setter.param p.1))) l1)
        (rs.map (fun p => (p.2, none, Setter.result p.1))) l2) [(rc, none, Setter.recv)] l3
      refine ⟨by rw [m3.2.1, m2.2.1, m1.2.1]; simpa [markFields] using hk,
        by rw [m3.2.2.2.2.1, m2.2.2.2.2.1, m1.2.2.2.2.1]; simp [markFields],
        by rw [m3.2.2.2.2.2, m2.2.2.2.2.2, m1.2.2.2.2.2]; simp [markFields], ?_, ?_, ?_⟩
      · cases h3 with
        | cons hh hr => cases hr; simp only [applySetters, Setter.apply]; rw [hrp, hpm]; simpa [markFields, hp] using hpa
      · cases h3 with
        | cons hh hr => cases hr; simp only [applySetters, Setter.apply]; rw [hrm, hpr]; simpa [markFields, hrs] using hra
      · cases h3 with
        | cons hh hr => cases hr; exact ⟨_, by simp [applySetters, Setter.apply], hh.1 rfl⟩
  | iface ms =>
    simp only [hn, shape, Option.some.injEq, Prod.mk.injEq] at hs
    obtain ⟨rfl, rfl⟩ := hs
    refine ⟨by rw [(applySetters_meta _ _ _).2.1]; simpa [markFields] using hk, fun _ => ?_⟩
    obtain ⟨hnd, hsig⟩ := hmeths ms hn
    obtain ⟨a1, a2⟩ := applySetters_methods (F := F) (v2 := v2) (u := u3) ms (markFields (.iface ms) ob) ocs hnd hsig hall
    refine ⟨a1, fun k r hl => ?_⟩
    -- a binding that is not one of the interface's methods would have been there before: the object was fresh
    by_cases hex : ∃ m ∈ ms, m.name = k
    · exact hex
    · exfalso
      have hno : ∀ m ∈ ms, m.name ≠ k := fun m hm e => hex ⟨m, hm, e⟩
      rw [a2 k hno] at hl
      have : (markFields (GNode.iface ms) ob).methods = [] := by simpa [markFields] using hmeth
      rw [this] at hl
      simp [AL.lookup] at hl
  | other =>
    simp only [hn, shape, Option.some.injEq, Prod.mk.injEq] at hs
    obtain ⟨rfl, rfl⟩ := hs
    rw [(applySetters_meta _ _ _).2.1]; simpa [markFields] using hk
  | basic nm => simp [hn, shape] at hs
  | named _ _ _ _ => simp [hn, shape] at hs
  | alias t => simp [hn, shape] at hs
  | tparam c => simp [hn, shape] at hs

/-! ## the methods phase and other updates that do not touch what `Desc` speaks about -/

/-- two objects agree on everything `Desc` looks at -/
def SameShape (a b : Obj) : Prop :=
  a.kind = b.kind ∧ a.elem = b.elem ∧ a.key = b.key ∧ a.under = b.under ∧ a.len = b.len ∧ a.members = b.members ∧
  a.hasSig = b.hasSig ∧ a.variadic = b.variadic ∧ a.params = b.params ∧ a.results = b.results ∧ a.recv = b.recv ∧ a.src = b.src

theorem SameShape.refl (a : Obj) : SameShape a a := ⟨rfl, rfl, rfl, rfl, rfl, rfl, rfl, rfl, rfl, rfl, rfl, rfl⟩

theorem SameShape.trans {a b c : Obj} (h1 : SameShape a b) (h2 : SameShape b c) : SameShape a c :=
  ⟨h1.1.trans h2.1, h1.2.1.trans h2.2.1, h1.2.2.1.trans h2.2.2.1, h1.2.2.2.1.trans h2.2.2.2.1, h1.2.2.2.2.1.trans h2.2.2.2.2.1,
   h1.2.2.2.2.2.1.trans h2.2.2.2.2.2.1, h1.2.2.2.2.2.2.1.trans h2.2.2.2.2.2.2.1, h1.2.2.2.2.2.2.2.1.trans h2.2.2.2.2.2.2.2.1,
   h1.2.2.2.2.2.2.2.2.1.trans h2.2.2.2.2.2.2.2.2.1, h1.2.2.2.2.2.2.2.2.2.1.trans h2.2.2.2.2.2.2.2.2.2.1,
   h1.2.2.2.2.2.2.2.2.2.2.1.trans h2.2.2.2.2.2.2.2.2.2.2.1, h1.2.2.2.2.2.2.2.2.2.2.2.trans h2.2.2.2.2.2.2.2.2.2.2.2⟩

theorem Desc.congr {F : Facts} {v2 : Bool} {u : U} {a b : Obj} {g : Nat} (hs : SameShape a b)
    (hm : a.methods = b.methods ∨ a.methods = []) (h : Desc F v2 u a g) : Desc F v2 u b g := by
  obtain ⟨e1, e2, e3, e4, e5, e6, e7, e8, e9, e10, e11, _⟩ := hs
  unfold Desc at h ⊢
  cases hn : F.node g with
  | iface ms =>
    simp only [hn] at h ⊢
    refine ⟨e1 ▸ h.1, fun hne => ?_⟩
    rcases hm with hm | hm
    · rw [← hm]; exact h.2 hne
    · -- an interface with methods cannot be described by an object without
      obtain ⟨m, hmem⟩ := List.exists_mem_of_ne_nil ms hne
      obtain ⟨r, hl, _⟩ := (h.2 hne).1 m hmem
      rw [hm] at hl; simp [AL.lookup] at hl
  | _ =>
    simp only [hn] at h ⊢ <;> (try rw [← e1]) <;> (try rw [← e2]) <;> (try rw [← e3]) <;> (try rw [← e4]) <;>
      (try rw [← e5]) <;> (try rw [← e6]) <;> (try rw [← e7]) <;> (try rw [← e8]) <;> (try rw [← e9]) <;> (try rw [← e10]) <;>
      (try rw [← e11]) <;> exact h

/-- a list of method setters changes nothing `Desc` looks at -/
theorem applySetters_methods_same (v2 : Bool) : ∀ (ms : List GMethod) (ob : Obj) (ocs : List Nat),
    SameShape ob (applySetters ob (methodKids v2 ms) ocs) := by
  intro ms
  induction ms with
  | nil => intro ob ocs; simp [methodKids, applySetters]; exact SameShape.refl ob
  | cons m ms ih =>
    intro ob ocs
    cases ocs with
    | nil => simp only [methodKids, List.map_cons, applySetters]; exact SameShape.refl ob
    | cons x xs =>
      simp only [methodKids, List.map_cons, applySetters]
      exact SameShape.trans (b := (Setter.method m.name).apply ob x) ⟨rfl, rfl, rfl, rfl, rfl, rfl, rfl, rfl, rfl, rfl, rfl, rfl⟩
        (ih ((Setter.method m.name).apply ob x) xs)

/-- an update of one object that changes nothing `Desc` looks at -/
theorem modify_same_dinv_core {F : Facts} {v2 : Bool} {u : U} {o : Nat} {f : Obj → Obj} {P : List Nat}
    (hg : Grows u (u.modify o f)) (hsame : ∀ ob : Obj, SameShape ob (f ob)) (hmeth : ∀ ob : Obj, (f ob).methods = ob.methods)
    (hm : MethInv F v2 (u.modify o f) P) (h : DInv F v2 u P) : DInv F v2 (u.modify o f) P := by
  refine ⟨?_, ?_, hm⟩
  · intro x ob hx hkx
    by_cases hox : o = x
    · subst hox
      cases h0 : u.objs[o]? with
      | none =>
        have : (u.modify o f).objs[o]? = none := by simp [U.modify, h0]
        rw [this] at hx; cases hx
      | some ob0 =>
        rw [modify_get_eq h0] at hx; cases hx
        have hs := hsame ob0
        have hb := h.bare o ob0 h0 (by rw [hs.1]; exact hkx)
        obtain ⟨b1, b2, b3, b4, b5, b6, b7, b8, b9, b10, b11, b12⟩ := hb
        obtain ⟨_, e2, e3, e4, e5, e6, e7, e8, e9, e10, e11, e12⟩ := hs
        exact ⟨e2 ▸ b1, e3 ▸ b2, e4 ▸ b3, e11 ▸ b4, e6 ▸ b5, e9 ▸ b6, e10 ▸ b7, e5 ▸ b8, e7 ▸ b9, e8 ▸ b10, e12 ▸ b11, by rw [hmeth]; exact b12⟩
    · rw [modify_get_ne hox] at hx; exact h.bare x ob hx hkx
  · intro x ob g hx hs
    by_cases hox : o = x
    · subst hox
      cases h0 : u.objs[o]? with
      | none =>
        have : (u.modify o f).objs[o]? = none := by simp [U.modify, h0]
        rw [this] at hx; cases hx
      | some ob0 =>
        rw [modify_get_eq h0] at hx; cases hx
        have hsm := hsame ob0
        rcases h.desc o ob0 g h0 (by rw [hsm.2.2.2.2.2.2.2.2.2.2.2]; exact hs) with hp | hdd
        · exact .inl hp
        · exact .inr (Desc.congr hsm (.inl (hmeth ob0).symm) (hdd.mono hg))
    · rw [modify_get_ne hox] at hx
      rcases h.desc x ob g hx hs with hp | hdd
      · exact .inl hp
      · exact .inr (hdd.mono hg)

theorem modify_same_dinv {F : Facts} {v2 : Bool} {u : U} {o : Nat} {f : Obj → Obj} {P : List Nat}
    (hg : Grows u (u.modify o f)) (hsame : ∀ ob : Obj, SameShape ob (f ob)) (hmeth : ∀ ob : Obj, (f ob).methods = ob.methods)
    (hghost : ∀ ob : Obj, (f ob).nsrc = ob.nsrc ∧ (f ob).nskip = ob.nskip)
    (h : DInv F v2 u P) : DInv F v2 (u.modify o f) P :=
  modify_same_dinv_core hg hsame hmeth
    (h.meth.modify_keep hg (fun ob => ⟨(hghost ob).1, (hghost ob).2, hmeth ob, fun hk => by rw [(hsame ob).1]; exact hk⟩)) h

/-- recording the ghost fields of the methods phase in an object that has a kind: the object goes on the stack -/
theorem modify_ghost_dinv {F : Facts} {v2 : Bool} {u : U} {o : Nat} {g : Nat} {b : Bool} {P : List Nat}
    (hg : Grows u (u.modify o (fun ob => { ob with nsrc := some g, nskip := b }))) (hkn : Known u o)
    (h : DInv F v2 u P) : DInv F v2 (u.modify o (fun ob => { ob with nsrc := some g, nskip := b })) (o :: P) := by
  obtain ⟨ob0, hob0, hk0⟩ := hkn
  exact modify_same_dinv_core hg (fun ob => ⟨rfl, rfl, rfl, rfl, rfl, rfl, rfl, rfl, rfl, rfl, rfl, rfl⟩) (fun _ => rfl)
    ((h.meth.weaken o).modify_pending hg (fun ob' hob' => by rw [hob0] at hob'; cases hob'; exact hk0) List.mem_cons_self)
    (h.weaken o)

/-- the methods phase keeps the description invariant – and establishes its methods half for the object it runs on: the
method table becomes the defined type's method set (unless the object, an interface's, has methods already) -/
theorem addMethods_desc {F : Facts} {v2 : Bool} {bt : List Builtin} {w : U → Nat → Option Name → Option (U × Nat)}
    (hw : WalkOK bt w) (hd : WalkDescOK F v2 bt w) (u : U) (o : Nat) (ms : List GMethod) {g : Nat} (P : List Nat)
    {und ou : Nat} {tps : List (Str × Nat)} (hn : F.node g = .named und ms tps ou)
    (hwm : (ms.map (·.name)).Nodup ∧ ∀ m ∈ ms, ∃ K kids, shape v2 (F.node m.sig) = some (K, kids))
    (u' : U) (o' : Nat) (hi : WalkInv.Inv bt u) (hdi : DInv F v2 u P) (hkn : Known u o)
    (hf : addMethods v2 w u o ms g = some (u', o')) :
    DInv F v2 u' P ∧ FrozenExcept o u u' ∧ ∃ ob' : Obj, u'.objs[o]? = some ob' ∧ ob'.nsrc = some g := by
  unfold addMethods at hf
  obtain ⟨ob0, hob0, hk0⟩ := hkn
  by_cases hempty : (u.obj o).methods.isEmpty = true
  · rw [if_pos hempty] at hf
    have hm0 : ob0.methods = [] := by
      rw [obj_of_get hob0] at hempty
      simpa using hempty
    obtain ⟨i1, g1⟩ := modify_inv (o := o) (ghost_goodUpdate u o g false) hi
    have d1 : DInv F v2 (u.modify o (fun ob => { ob with nsrc := some g, nskip := false })) (o :: P) :=
      modify_ghost_dinv g1 ⟨ob0, hob0, hk0⟩ hdi
    have hob1 := modify_get_eq (f := fun ob : Obj => { ob with nsrc := some g, nskip := false }) hob0
    cases hr : runKids w o (u.modify o (fun ob => { ob with nsrc := some g, nskip := false })) (methodKids v2 ms) with
    | none => simp [hr] at hf
    | some u3 =>
      simp only [hr, Option.some.injEq, Prod.mk.injEq] at hf
      obtain ⟨rfl, rfl⟩ := hf
      obtain ⟨d3, fe3, g3, ocs, _, hobf, hall⟩ := runKids_desc hw hd o P (methodKids v2 ms) _ _ u3 i1 d1 hob1 hk0 hr
      -- the methods half for the owner: every method of the defined type, nothing else
      have hmeth3 : MethInv F v2 u3 P := d3.meth.pop (fun ob g' hx hs => by
        rw [hobf] at hx; cases hx
        right
        rw [(applySetters_ghost _ _ ocs).1] at hs
        simp only [Option.some.injEq] at hs
        subst hs
        refine ⟨und, ms, tps, ou, hn, fun _ => ?_⟩
        obtain ⟨a1, a2⟩ := applySetters_methods (F := F) (v2 := v2) (u := u3) ms
          ({ ob0 with nsrc := some g, nskip := false } : Obj) ocs hwm.1 hwm.2 hall
        refine ⟨a1, fun k r hl => ?_⟩
        by_cases hex : ∃ m ∈ ms, m.name = k
        · exact hex
        · exfalso
          have hno : ∀ m ∈ ms, m.name ≠ k := fun m hm e => hex ⟨m, hm, e⟩
          rw [a2 k hno] at hl
          simp only at hl
          rw [hm0] at hl
          simp [AL.lookup] at hl)
      refine ⟨⟨d3.bare, ?_, hmeth3⟩, ?_, ⟨_, hobf, by rw [(applySetters_ghost _ _ ocs).1]⟩⟩
      · intro x obx gx hx hs
        by_cases hox : o = x
        · subst hox
          rw [hobf] at hx; cases hx
          have hsame := applySetters_methods_same v2 ms ({ ob0 with nsrc := some g, nskip := false } : Obj) ocs
          have hs0 : ob0.src = some gx := by
            have := hsame.2.2.2.2.2.2.2.2.2.2.2
            simp only at this
            rw [this]; exact hs
          rcases hdi.desc o ob0 gx hob0 hs0 with hp | hdd
          · exact .inl hp
          · -- the methods phase only runs on an object that has no methods yet
            have hdd1 : Desc F v2 u3 ({ ob0 with nsrc := some g, nskip := false } : Obj) gx :=
              Desc.congr (a := ob0) ⟨rfl, rfl, rfl, rfl, rfl, rfl, rfl, rfl, rfl, rfl, rfl, rfl⟩ (.inl rfl) (hdd.mono (g1.trans g3))
            exact .inr (Desc.congr hsame (.inr hm0) hdd1)
        · rcases d3.desc x obx gx hx hs with hp | hdd
          · rcases List.mem_cons.mp hp with rfl | hp
            · exact absurd rfl hox
            · exact .inl hp
          · exact .inr hdd
      · intro x ob hxo hx hkx
        have hx1 : (u.modify o (fun ob => { ob with nsrc := some g, nskip := false })).objs[x]? = some ob := by
          rw [modify_get_ne (Ne.symm hxo)]; exact hx
        exact fe3 x ob hxo hx1 hkx
  · rw [if_neg hempty] at hf
    simp only [Option.some.injEq, Prod.mk.injEq] at hf
    obtain ⟨rfl, rfl⟩ := hf
    obtain ⟨_, g1⟩ := modify_inv (o := o) (ghost_goodUpdate u o g true) hi
    have d1 : DInv F v2 (u.modify o (fun ob => { ob with nsrc := some g, nskip := true })) (o :: P) :=
      modify_ghost_dinv g1 ⟨ob0, hob0, hk0⟩ hdi
    have hob1 := modify_get_eq (f := fun ob : Obj => { ob with nsrc := some g, nskip := true }) hob0
    refine ⟨⟨d1.bare, ?_, d1.meth.pop (fun ob g' hx hs => by
      rw [hob1] at hx; cases hx
      simp only [Option.some.injEq] at hs
      subst hs
      exact .inr ⟨und, ms, tps, ou, hn, fun hsk => by simp at hsk⟩)⟩, modify_frozenExcept u o _, ⟨_, hob1, rfl⟩⟩
    intro x obx gx hx hs
    by_cases hox : o = x
    · subst hox
      rw [hob1] at hx; cases hx
      rcases hdi.desc o ob0 gx hob0 hs with hp | hdd
      · exact .inl hp
      · exact .inr (Desc.congr (a := ob0) ⟨rfl, rfl, rfl, rfl, rfl, rfl, rfl, rfl, rfl, rfl, rfl, rfl⟩ (.inl rfl) (hdd.mono g1))
    · rcases d1.desc x obx gx hx hs with hp | hdd
      · rcases List.mem_cons.mp hp with rfl | hp
        · exact absurd rfl hox
        · exact .inl hp
      · exact .inr hdd

/-! ## `walkType` -/

/-- the facts are those of go/types: the underlying node of a defined type is a basic/named/map/slice node (alias rule) or
an unnamed type node, and so is the underlying node of the generic origin where v2 walks that instead -/
structure WellFormed (F : Facts) (v2 : Bool) : Prop where
  under : ∀ g und ms tps ou, F.node g = .named und ms tps ou →
    (isAliasUnder (F.node und) = true ∨ ∃ K kids, shape v2 (F.node und) = some (K, kids)) ∧
    (isAliasUnder (F.node und) = false → (v2 && isStructOrIface (F.node und)) = true → ∃ K kids, shape v2 (F.node ou) = some (K, kids))
  /-- the methods of an interface or of a defined type have distinct names and their signatures are unnamed type nodes -/
  methods : ∀ g ms, (F.node g = .iface ms ∨ ∃ und tps ou, F.node g = .named und ms tps ou) →
    (ms.map (·.name)).Nodup ∧ ∀ m ∈ ms, ∃ K kids, shape v2 (F.node m.sig) = some (K, kids)

theorem frozen_of_except {u1 u2 u3 : U} {x : Nat} (h1 : Frozen u1 u2) (h2 : FrozenExcept x u2 u3)
    (hx : ∀ ob : Obj, u1.objs[x]? = some ob → ob.kind = .unknown) : Frozen u1 u3 := by
  intro o ob ho hk
  have hne : o ≠ x := by
    intro e; subst e; exact hk (hx ob ho)
  exact h2 o ob hne (h1 o ob ho hk) hk

theorem lookup_unique {α β} [DecidableEq α] {k : α} {m : List (α × β)} {a b : β} (h1 : AL.lookup k m = some a) (h2 : AL.lookup k m = some b) : a = b := by
  rw [h1] at h2; exact Option.some.inj h2

/-- appending a filled object that its node describes -/
theorem newObj_dinv {F : Facts} {v2 : Bool} {u : U} {P : List Nat} (ob0 : Obj) (hg : Grows u (u.newObj ob0).1)
    (hk : ob0.kind ≠ .unknown) (hd : ∀ g, ob0.src = some g → Desc F v2 (u.newObj ob0).1 ob0 g) (h0 : ob0.nsrc = none)
    (h : DInv F v2 u P) : DInv F v2 (u.newObj ob0).1 P := by
  refine ⟨?_, ?_, h.meth.newObj ob0 hg h0⟩
  · intro o ob hob hko
    have hob' : (u.objs ++ [ob0])[o]? = some ob := hob
    rcases getElem?_append_new _ _ _ _ hob' with hold | ⟨_, rfl⟩
    · exact h.bare o ob hold hko
    · exact absurd hko hk
  · intro o ob g hob hs
    have hob' : (u.objs ++ [ob0])[o]? = some ob := hob
    rcases getElem?_append_new _ _ _ _ hob' with hold | ⟨_, rfl⟩
    · rcases h.desc o ob g hold hs with hp | hdd
      · exact .inl hp
      · exact .inr (hdd.mono hg)
    · exact .inr (hd g hs)

/-- an update that changes nothing -/
theorem modify_noop_get (u : U) (o x : Nat) (f : Obj → Obj) (hf : ∀ ob, f ob = ob) : (u.modify o f).objs[x]? = u.objs[x]? := by
  by_cases hox : o = x
  · subst hox
    cases h0 : u.objs[o]? with
    | none => simp [U.modify, h0]
    | some ob => rw [modify_get_eq h0, hf]
  · exact modify_get_ne hox

/-- children that are walked for their effect on the universe only (`drop`): the owner is not touched -/
theorem runKids_drop_desc {F : Facts} {v2 : Bool} {bt : List Builtin} {w : U → Nat → Option Name → Option (U × Nat)}
    (hw : WalkOK bt w) (hd : WalkDescOK F v2 bt w) (o : Nat) (P : List Nat) :
    ∀ (cs : List Nat) (u u' : U), WalkInv.Inv bt u → DInv F v2 u P →
      runKids w o u (cs.map (fun c => (c, none, Setter.drop))) = some u' → DInv F v2 u' P ∧ Frozen u u' := by
  intro cs
  induction cs with
  | nil => intro u u' _ hdi hr; simp only [List.map_nil, runKids, Option.some.injEq] at hr; subst hr; exact ⟨hdi, Frozen.refl _⟩
  | cons c cs ih =>
    intro u u' hi hdi hr
    simp only [List.map_cons, runKids] at hr
    cases hwc : w u c none with
    | none => simp [hwc] at hr
    | some p =>
      obtain ⟨u1, oc⟩ := p
      simp only [hwc] at hr
      have p1 := hw u c none u1 oc hi hwc
      obtain ⟨d1, f1, _, _⟩ := hd u c none u1 oc P hi hdi hwc
      obtain ⟨i2, g2⟩ := modify_inv (o := o) (setter_goodUpdate u1 o .drop oc p1.good) p1.inv
      have d2 : DInv F v2 (u1.modify o (fun ob => Setter.drop.apply ob oc)) P :=
        modify_same_dinv g2 (fun ob => SameShape.refl ob) (fun _ => rfl) (fun _ => ⟨rfl, rfl⟩) d1
      obtain ⟨d3, f3⟩ := ih _ _ i2 d2 hr
      refine ⟨d3, ?_⟩
      intro x ob hx hkx
      have h1 := f1 x ob hx hkx
      have h2 : (u1.modify o (fun ob => Setter.drop.apply ob oc)).objs[x]? = some ob := by
        rw [modify_noop_get u1 o x (fun ob => Setter.drop.apply ob oc) (fun _ => rfl)]; exact h1
      exact f3 x ob h2 hkx

/-- children whose setters change nothing `Desc` looks at (methods, type parameters), stored in an object that has a kind -/
theorem runKids_neutral_desc {F : Facts} {v2 : Bool} {bt : List Builtin} {w : U → Nat → Option Name → Option (U × Nat)}
    (hw : WalkOK bt w) (hd : WalkDescOK F v2 bt w) (u : U) (o : Nat) (kids : List (Nat × Option Name × Setter)) (P : List Nat)
    (hneutral : ∀ (ob : Obj) (ocs : List Nat), SameShape ob (applySetters ob kids ocs))
    (hmeths : ∀ (ob : Obj) (ocs : List Nat), (applySetters ob kids ocs).methods = ob.methods)
    (u' : U) (hi : WalkInv.Inv bt u) (hdi : DInv F v2 u P) (hkn : Known u o)
    (hr : runKids w o u kids = some u') : DInv F v2 u' P ∧ FrozenExcept o u u' := by
  obtain ⟨ob0, hob0, hk0⟩ := hkn
  obtain ⟨d3, fe3, g3, ocs, _, hobf, _⟩ := runKids_desc hw hd o P kids u ob0 u' hi (hdi.weaken o) hob0 hk0 hr
  have hmeth3 : MethInv F v2 u' P := d3.meth.pop (fun ob g' hx hs => by
    rw [hobf] at hx; cases hx
    rw [(applySetters_ghost ob0 kids ocs).1] at hs
    rcases hdi.meth.mdesc o ob0 g' hob0 hs with hp | hdd
    · exact .inl hp
    · right
      obtain ⟨und, ms, tps, ou, hn, hm⟩ := hdd.mono g3
      exact ⟨und, ms, tps, ou, hn, fun hsk => by
        rw [hmeths ob0 ocs]; exact hm (by rw [← (applySetters_ghost ob0 kids ocs).2]; exact hsk)⟩)
  refine ⟨⟨d3.bare, ?_, hmeth3⟩, fe3⟩
  intro x obx gx hx hs
  by_cases hox : o = x
  · subst hox
    rw [hobf] at hx; cases hx
    have hsame := hneutral ob0 ocs
    have hs0 : ob0.src = some gx := by rw [hsame.2.2.2.2.2.2.2.2.2.2.2]; exact hs
    rcases hdi.desc o ob0 gx hob0 hs0 with hp | hdd
    · exact .inl hp
    · exact .inr (Desc.congr hsame (.inl (hmeths ob0 ocs).symm) (hdd.mono g3))
  · rcases d3.desc x obx gx hx hs with hp | hdd
    · rcases List.mem_cons.mp hp with rfl | hp
      · exact absurd rfl hox
      · exact .inl hp
    · exact .inr hdd

/-- a list of type-parameter setters changes nothing `Desc` looks at -/
theorem applySetters_tparams_same : ∀ (tps : List (Str × Nat)) (ob : Obj) (ocs : List Nat),
    SameShape ob (applySetters ob (tps.map (fun tp => (tp.2, none, Setter.tparam tp.1))) ocs) := by
  intro tps
  induction tps with
  | nil => intro ob ocs; simp [applySetters]; exact SameShape.refl ob
  | cons m ms ih =>
    intro ob ocs
    cases ocs with
    | nil => simp only [List.map_cons, applySetters]; exact SameShape.refl ob
    | cons x xs =>
      simp only [List.map_cons, applySetters]
      exact SameShape.trans (b := (Setter.tparam m.1).apply ob x) ⟨rfl, rfl, rfl, rfl, rfl, rfl, rfl, rfl, rfl, rfl, rfl, rfl⟩
        (ih ((Setter.tparam m.1).apply ob x) xs)

theorem applySetters_tparams_methods : ∀ (tps : List (Str × Nat)) (ob : Obj) (ocs : List Nat),
    (applySetters ob (tps.map (fun tp => (tp.2, none, Setter.tparam tp.1))) ocs).methods = ob.methods := by
  intro tps
  induction tps with
  | nil => intro ob ocs; simp [applySetters]
  | cons m ms ih =>
    intro ob ocs
    cases ocs with
    | nil => simp only [List.map_cons, applySetters]
    | cons x xs =>
      simp only [List.map_cons, applySetters]
      exact (ih ((Setter.tparam m.1).apply ob x) xs).trans rfl

/-- **walk_describes**: `walkType` keeps "every filled object is described by its node", does not touch objects
that already have a kind, and returns the object that stands for the node it was called on -/
theorem walk_desc (bt : List Builtin) (F : Facts) (v2 : Bool) (hwf : WellFormed F v2) :
    ∀ fuel, WalkDescOK F v2 bt (fun u c un => walk bt F v2 fuel u c un) := by
  intro fuel
  induction fuel with
  | zero => intro u c un u' oc P _ _ hw; simp [walk] at hw
  | succ fuel ih =>
    intro u g useName u' o P hi hdi hw
    have ihw := walk_inv bt F v2 fuel
    cases hn : F.node g with
    | alias tgt =>
      simp only [walk, hn] at hw
      obtain ⟨d, f, r, _⟩ := ih u tgt none u' o P hi hdi hw
      exact ⟨d, f, fun _ => .alias hn (r rfl), (fun _ _ hsh => by obtain ⟨_, _, hh⟩ := hsh; simp [shape] at hh)⟩
    | basic nm =>
      simp only [walk, hn] at hw
      obtain ⟨d, f, l⟩ := fill_desc ihw ih u ⟨[], nm⟩ g (.basic nm) .unsupported (by decide) [] P
        (fun u3 ob ocs _ hk _ _ => by
          have : applySetters (markFields (.basic nm) ob) [] ocs = ob := by cases ocs <;> rfl
          rw [this]; unfold Desc; simp only [hn]; exact hk) u' o hi hdi hw
      exact ⟨d, f, fun _ => .basic hn l, (fun _ _ hsh => by obtain ⟨_, _, hh⟩ := hsh; simp [shape] at hh)⟩
    | tparam c =>
      simp only [walk, hn, Option.some.injEq] at hw
      obtain ⟨_, g1, o1, _, _, _, _⟩ := newObj_inv (bt := bt) (u := u)
        { name := useName.getD (nameOf v2 (F.str g)), kind := .typeParam, src := some g } (by simp [refs]) hi
      have d1 : DInv F v2 (u.newObj { name := useName.getD (nameOf v2 (F.str g)), kind := .typeParam, src := some g }).1 P :=
        newObj_dinv _ g1 (by simp) (fun g' hg' => by
          simp only [Option.some.injEq] at hg'; subst hg'
          unfold Desc; simp only [hn]) rfl hdi
      have e : u.newObj { name := useName.getD (nameOf v2 (F.str g)), kind := .typeParam, src := some g } = (u', o) := hw
      rw [e] at d1 o1
      refine ⟨d1, ?_, fun hun => .tparam hn ⟨_, o1, rfl, by subst hun; rfl⟩, (fun _ _ hsh => by obtain ⟨_, _, hh⟩ := hsh; simp [shape] at hh)⟩
      intro x ob hx _
      have : (u.newObj { name := useName.getD (nameOf v2 (F.str g)), kind := .typeParam, src := some g }).1.objs[x]? = some ob :=
        getElem?_append_old _ _ _ _ hx
      rw [e] at this; exact this
    | named und ms tps ou =>
      obtain ⟨hund, horig⟩ := hwf.under g und ms tps ou hn
      have hres : AL.lookup (regName F v2 g) u'.types = some o :=
        walk_named_idx bt F v2 fuel u g useName und ms tps ou hn hund horig u' o hi hw
      have hbyname : Res F v2 u' g o := .byName (by intro t; simp [hn]) (by intro n; simp [hn]) (by intro k; simp [hn]) hres
      simp only [walk, hn] at hw
      -- the common "already has a kind" exit
      have known_exit : ∀ (ux : U) (nx : Name), WalkInv.Inv bt ux → DInv F v2 ux P → (U.type bt ux nx) = (u', o) →
          DInv F v2 u' P ∧ Frozen ux u' := by
        intro ux nx hix hdx e
        have d1 := type_dinv (F := F) (v2 := v2) (P := P) nx hix hdx
        have f1 := type_frozen bt ux nx
        have e1 : (U.type bt ux nx).1 = u' := by rw [e]
        rw [e1] at d1 f1; exact ⟨d1, f1⟩
      -- an object that has no kind in `(U.type …).1` has none (or does not exist) before
      have unk_in_u : ∀ (ux : U) (nx : Name), (U.type bt ux nx).1.kind (U.type bt ux nx).2 = .unknown →
          ∀ ob : Obj, ux.objs[(U.type bt ux nx).2]? = some ob → ob.kind = .unknown := by
        intro ux nx hunk ob hob
        have := type_keeps bt ux nx _ ob hob
        rw [kind_of_obj this] at hunk; exact hunk
      -- the flattening rule: the walk of the underlying node under the outer name fills the object of that name
      have flatten : ∀ (ux : U) (nx : Name) (c : Nat) (u5 : U) (o5 : Nat), WalkInv.Inv bt ux → DInv F v2 ux P →
          (∃ K kids, shape v2 (F.node c) = some (K, kids)) →
          walk bt F v2 fuel (U.type bt ux nx).1 c (some nx) = some (u5, o5) →
          DInv F v2 u5 P ∧ Frozen ux u5 ∧ WalkInv.Inv bt u5 ∧ Known u5 o5 ∧ o5 = (U.type bt ux nx).2 := by
        intro ux nx c u5 o5 hix hdx hsc hw2
        obtain ⟨h1, _, l1⟩ := type_inv (bt := bt) nx hix
        have d1 := type_dinv (F := F) (v2 := v2) (P := P) nx hix hdx
        have f1 := type_frozen bt ux nx
        obtain ⟨d5, f5, _, _⟩ := ih _ c _ u5 o5 P h1 d1 hw2
        have p5 := ihw _ c _ u5 o5 h1 hw2
        have l5 : AL.lookup nx u5.types = some o5 := by
          obtain ⟨K, kids, hs⟩ := hsc
          cases fuel with
          | zero => simp [walk] at hw2
          | succ f =>
            have ihf := walk_inv bt F v2 f
            simp only [walk] at hw2
            cases hc : F.node c with
            | alias _ => simp [hc, shape] at hs
            | basic _ => simp [hc, shape] at hs
            | tparam _ => simp [hc, shape] at hs
            | named _ _ _ _ => simp [hc, shape] at hs
            | _ =>
              simp only [hc] at hw2 hs
              simp only [hs, Option.getD_some] at hw2
              exact fill_idx ihf _ _ c _ K kids u5 o5 h1 hw2
        have e5 : o5 = (U.type bt ux nx).2 := lookup_unique l5 (p5.grows.idx _ _ l1)
        exact ⟨d5, f1.trans f5, p5.inv, p5.good.1, e5⟩
      by_cases ha : isAliasUnder (F.node und) = true
      · simp only [ha, if_true] at hw
        obtain ⟨h1, g1, l1⟩ := type_inv (bt := bt) (nameOf v2 (F.str g)) hi
        have d1 := type_dinv (F := F) (v2 := v2) (P := P) (nameOf v2 (F.str g)) hi hdi
        have f1 := type_frozen bt u (nameOf v2 (F.str g))
        obtain ⟨ob1, hob1, _⟩ := h1.nameOK _ _ l1
        by_cases hk : (U.type bt u (nameOf v2 (F.str g))).1.kind (U.type bt u (nameOf v2 (F.str g))).2 ≠ .unknown
        · simp only [hk, ne_eq, not_false_eq_true, if_true, Option.some.injEq] at hw
          obtain ⟨d, f⟩ := known_exit u _ hi hdi hw
          exact ⟨d, f, fun _ => hbyname, (fun _ _ hsh => by obtain ⟨_, _, hh⟩ := hsh; simp [shape] at hh)⟩
        · simp only [hk, if_false] at hw
          have hunk : (U.type bt u (nameOf v2 (F.str g))).1.kind (U.type bt u (nameOf v2 (F.str g))).2 = .unknown := by simpa using hk
          have hunk1 : ob1.kind = .unknown := by rw [kind_of_obj hob1] at hunk; exact hunk
          obtain ⟨h2, g2⟩ := modify_inv (o := (U.type bt u (nameOf v2 (F.str g))).2)
            (mark_goodUpdate _ _ (fun ob => { ob with kind := .alias, src := some g }) hunk (fun ob => ⟨rfl, rfl⟩)) h1
          have d2 : DInv F v2 ((U.type bt u (nameOf v2 (F.str g))).1.modify (U.type bt u (nameOf v2 (F.str g))).2 (fun ob => { ob with kind := .alias, src := some g }))
              ((U.type bt u (nameOf v2 (F.str g))).2 :: P) :=
            modify_dinv g2 (fun ob' _ => by simp) List.mem_cons_self (d1.weaken _)
          cases hr : runKids (fun u c un => walk bt F v2 fuel u c un) (U.type bt u (nameOf v2 (F.str g))).2
              ((U.type bt u (nameOf v2 (F.str g))).1.modify (U.type bt u (nameOf v2 (F.str g))).2 (fun ob => { ob with kind := .alias, src := some g }))
              [(und, none, .under)] with
          | none => simp [hr] at hw
          | some u3 =>
            simp only [hr] at hw
            have hob2 := modify_get_eq (f := fun ob : Obj => { ob with kind := .alias, src := some g }) hob1
            obtain ⟨h3, g3⟩ := runKids_inv ihw _ _ _ _ h2 hr
            obtain ⟨d3, fe3, _, ocs, hlen, hobf, hall⟩ := runKids_desc ihw ih _ P [(und, none, .under)] _ _ _ h2 d2 hob2 (by simp) hr
            -- pop the owner: its underlying type is stored
            have hmeth3 : MethInv F v2 u3 P := d3.meth.pop (fun ob g' hx hs => by
              rw [hobf] at hx; cases hx
              rw [(applySetters_ghost _ _ ocs).1] at hs
              have : ob1.nsrc = none := d1.meth.fresh _ ob1 hob1 hunk1
              simp only at hs
              rw [this] at hs; cases hs)
            have d3' : DInv F v2 u3 P := by
              refine ⟨d3.bare, ?_, hmeth3⟩
              intro x obx gx hx hs
              by_cases hox : (U.type bt u (nameOf v2 (F.str g))).2 = x
              · subst hox
                rw [hobf] at hx; cases hx
                right
                cases hall with
                | cons hh hrest =>
                  cases hrest
                  simp only [applySetters, Setter.apply] at hs ⊢
                  cases hs
                  unfold Desc; simp only [hn]
                  constructor
                  · simp
                  · exact ⟨_, rfl, hh.1 rfl⟩
              · rcases d3.desc x obx gx hx hs with hp | hdd
                · rcases List.mem_cons.mp hp with rfl | hp
                  · exact absurd rfl hox
                  · exact .inl hp
                · exact .inr hdd
            have hknown2 : Known ((U.type bt u (nameOf v2 (F.str g))).1.modify (U.type bt u (nameOf v2 (F.str g))).2 (fun ob => { ob with kind := .alias, src := some g }))
                (U.type bt u (nameOf v2 (F.str g))).2 := ⟨_, hob2, by simp⟩
            have hknown : Known u3 (U.type bt u (nameOf v2 (F.str g))).2 := hknown2.mono g3
            obtain ⟨d4, fe4, _⟩ := addMethods_desc ihw ih u3 _ ms P hn (hwf.methods g ms (.inr ⟨_, _, _, hn⟩)) u' o h3 d3' hknown hw
            refine ⟨d4, ?_, fun _ => hbyname, (fun _ _ hsh => by obtain ⟨_, _, hh⟩ := hsh; simp [shape] at hh)⟩
            have fA : Frozen u u3 := by
              refine frozen_of_except (x := (U.type bt u (nameOf v2 (F.str g))).2) f1 ?_ (unk_in_u u _ hunk)
              intro x ob hxo hx hkx
              have hx2 : ((U.type bt u (nameOf v2 (F.str g))).1.modify (U.type bt u (nameOf v2 (F.str g))).2 (fun ob => { ob with kind := .alias, src := some g })).objs[x]? = some ob := by
                rw [modify_get_ne (Ne.symm hxo)]; exact hx
              exact fe3 x ob hxo hx2 hkx
            exact frozen_of_except fA fe4 (unk_in_u u _ hunk)
      · simp only [ha, Bool.false_eq_true, if_false] at hw
        have ha' : isAliasUnder (F.node und) = false := by simpa using ha
        have hshape : ∃ K kids, shape v2 (F.node und) = some (K, kids) := by
          rcases hund with h | h
          · exact absurd h ha
          · exact h
        by_cases hs : (v2 && isStructOrIface (F.node und)) = true
        · simp only [hs, if_true] at hw
          -- the constraints of the type parameters are walked first; nothing is stored
          have hdropmap : tps.map (fun tp => (tp.2, (none : Option Name), Setter.drop)) =
              (tps.map (·.2)).map (fun c => (c, none, Setter.drop)) := by
            simp [List.map_map, Function.comp_def]
          cases hr0 : runKids (fun u c un => walk bt F v2 fuel u c un) 0 u (tps.map (fun tp => (tp.2, none, Setter.drop))) with
          | none => simp [hr0] at hw
          | some u1 =>
            simp only [hr0] at hw
            obtain ⟨i1, _⟩ := runKids_inv ihw 0 _ _ _ hi hr0
            obtain ⟨dd1, fr1⟩ := runKids_drop_desc ihw ih 0 P (tps.map (·.2)) u u1 hi hdi (by rw [← hdropmap]; exact hr0)
            generalize hnm : (if tps.isEmpty = true then nameOf v2 (F.str g) else genericName (nameOf v2 (F.str g)) tps) = n' at hw
            by_cases hk : (U.type bt u1 n').1.kind (U.type bt u1 n').2 ≠ .unknown
            · simp only [hk, ne_eq, not_false_eq_true, if_true, Option.some.injEq] at hw
              obtain ⟨d, f⟩ := known_exit u1 n' i1 dd1 hw
              exact ⟨d, fr1.trans f, fun _ => hbyname, (fun _ _ hsh => by obtain ⟨_, _, hh⟩ := hsh; simp [shape] at hh)⟩
            · simp only [hk, if_false] at hw
              have hunk : (U.type bt u1 n').1.kind (U.type bt u1 n').2 = .unknown := by simpa using hk
              cases hw2 : walk bt F v2 fuel (U.type bt u1 n').1 ou (some n') with
              | none => simp [hw2] at hw
              | some p =>
                obtain ⟨u3, o3⟩ := p
                simp only [hw2] at hw
                obtain ⟨d3, f3, i3, k3, e3⟩ := flatten u1 n' ou u3 o3 i1 dd1 (horig ha' hs) hw2
                obtain ⟨i4, g4⟩ := modify_inv (o := o3) (f := fun ob => { ob with tparams := [] })
                  (fun ob _ => ⟨rfl, fun _ => rfl, fun r hr => .inl (by
                    simp only [refs, List.map_nil, List.append_nil, List.mem_append] at hr ⊢
                    exact .inl hr)⟩) i3
                have d4 : DInv F v2 (u3.modify o3 (fun ob => { ob with tparams := [] })) P :=
                  modify_same_dinv g4 (fun ob => ⟨rfl, rfl, rfl, rfl, rfl, rfl, rfl, rfl, rfl, rfl, rfl, rfl⟩) (fun _ => rfl) (fun _ => ⟨rfl, rfl⟩) d3
                have fB : Frozen u1 (u3.modify o3 (fun ob => { ob with tparams := [] })) :=
                  frozen_of_except f3 (modify_frozenExcept u3 o3 _) (by rw [e3]; exact unk_in_u u1 n' hunk)
                cases hr5 : runKids (fun u c un => walk bt F v2 fuel u c un) o3 (u3.modify o3 (fun ob => { ob with tparams := [] }))
                    (tps.map (fun tp => (tp.2, none, Setter.tparam tp.1))) with
                | none => simp [hr5] at hw
                | some u5 =>
                  simp only [hr5] at hw
                  obtain ⟨i5, g5⟩ := runKids_inv ihw o3 _ _ _ i4 hr5
                  obtain ⟨d5, fe5⟩ := runKids_neutral_desc ihw ih _ o3 _ P (applySetters_tparams_same tps) (applySetters_tparams_methods tps) u5 i4 d4 (k3.mono g4) hr5
                  have fC : Frozen u1 u5 := frozen_of_except fB fe5 (by rw [e3]; exact unk_in_u u1 n' hunk)
                  obtain ⟨d6, fe6, _⟩ := addMethods_desc ihw ih u5 o3 ms P hn (hwf.methods g ms (.inr ⟨_, _, _, hn⟩)) u' o i5 d5 ((k3.mono g4).mono g5) hw
                  exact ⟨d6, fr1.trans (frozen_of_except fC fe6 (by rw [e3]; exact unk_in_u u1 n' hunk)), fun _ => hbyname, (fun _ _ hsh => by obtain ⟨_, _, hh⟩ := hsh; simp [shape] at hh)⟩
        · simp only [hs, Bool.false_eq_true, if_false] at hw
          by_cases hk : (U.type bt u (nameOf v2 (F.str g))).1.kind (U.type bt u (nameOf v2 (F.str g))).2 ≠ .unknown
          · simp only [hk, ne_eq, not_false_eq_true, if_true, Option.some.injEq] at hw
            obtain ⟨d, f⟩ := known_exit u _ hi hdi hw
            exact ⟨d, f, fun _ => hbyname, (fun _ _ hsh => by obtain ⟨_, _, hh⟩ := hsh; simp [shape] at hh)⟩
          · simp only [hk, if_false] at hw
            have hunk : (U.type bt u (nameOf v2 (F.str g))).1.kind (U.type bt u (nameOf v2 (F.str g))).2 = .unknown := by simpa using hk
            cases hw2 : walk bt F v2 fuel (U.type bt u (nameOf v2 (F.str g))).1 und (some (nameOf v2 (F.str g))) with
            | none => simp [hw2] at hw
            | some p =>
              obtain ⟨u3, o3⟩ := p
              simp only [hw2] at hw
              obtain ⟨d3, f3, i3, k3, e3⟩ := flatten u _ und u3 o3 hi hdi hshape hw2
              obtain ⟨d5, fe5, _⟩ := addMethods_desc ihw ih u3 o3 ms P hn (hwf.methods g ms (.inr ⟨_, _, _, hn⟩)) u' o i3 d3 k3 hw
              exact ⟨d5, frozen_of_except f3 fe5 (by rw [e3]; exact unk_in_u u _ hunk), fun _ => hbyname, (fun _ _ hsh => by obtain ⟨_, _, hh⟩ := hsh; simp [shape] at hh)⟩
    | _ =>
      -- the unnamed type nodes: `fill` with the node's shape
      have hs : ∃ K kids, shape v2 (F.node g) = some (K, kids) := by rw [hn]; exact ⟨_, _, rfl⟩
      obtain ⟨K, kids, hs⟩ := hs
      have hw' : fill bt (fun u c un => walk bt F v2 fuel u c un) u (useName.getD (nameOf v2 (F.str g))) g (F.node g) K kids = some (u', o) := by
        simp only [walk, hn] at hw
        rw [hn] at hs ⊢
        simp only [hs] at hw
        exact hw
      obtain ⟨d, f, l⟩ := fill_desc ihw ih u _ g (F.node g) K (shape_kind_ne v2 _ K kids hs) kids P
        (fun u3 ob ocs hfr hk hl hall => shape_match g K kids hs (fun ms h => hwf.methods g ms (.inl h)) u3 ob ocs hfr hk hl hall) u' o hi hdi hw'
      refine ⟨d, f, fun hun => ?_, fun n hun _ => by subst hun; exact l⟩
      subst hun
      have hreg : regName F v2 g = nameOf v2 (F.str g) := regName_other (by intro a b c d h; rw [hn] at h; cases h)
      exact .byName (by intro t; simp [hn]) (by intro n; simp [hn]) (by intro k; simp [hn]) (by rw [hreg]; exact l)

/-! ## declarations, package scans, loaders -/
open Gengo.Loader

/-- closed + canonical + described, with nothing pending -/
def Full (bt : List Builtin) (F : Facts) (v2 : Bool) (u : U) : Prop := WalkInv.Inv bt u ∧ DInv F v2 u []

theorem dinv_of_same {F : Facts} {v2 : Bool} {u u' : U} {P : List Nat} (ho : u'.objs = u.objs) (hg : Grows u u')
    (h : DInv F v2 u P) : DInv F v2 u' P := by
  refine ⟨?_, ?_, h.meth.same ho hg⟩
  · intro o ob hob hk; rw [ho] at hob; exact h.bare o ob hob hk
  · intro o ob g hob hs
    rw [ho] at hob
    rcases h.desc o ob g hob hs with hp | hd
    · exact .inl hp
    · exact .inr (hd.mono hg)

/-- an update of an object that has a kind and no source node (a declaration object) -/
theorem modify_nosrc_dinv {F : Facts} {v2 : Bool} {u : U} {o : Nat} {f : Obj → Obj} {P : List Nat}
    (hg : Grows u (u.modify o f)) (hf : ∀ ob : Obj, u.objs[o]? = some ob → (f ob).kind ≠ .unknown ∧ (f ob).src = none)
    (hkeep : ∀ ob : Obj, (f ob).nsrc = ob.nsrc ∧ (f ob).nskip = ob.nskip ∧ (f ob).methods = ob.methods ∧
      ((f ob).kind = .unknown → ob.kind = .unknown))
    (h : DInv F v2 u P) : DInv F v2 (u.modify o f) P := by
  refine ⟨?_, ?_, h.meth.modify_keep hg hkeep⟩
  · intro x ob hx hkx
    by_cases hox : o = x
    · subst hox
      cases h0 : u.objs[o]? with
      | none =>
        have : (u.modify o f).objs[o]? = none := by simp [U.modify, h0]
        rw [this] at hx; cases hx
      | some ob0 => rw [modify_get_eq h0] at hx; cases hx; exact absurd hkx (hf ob0 h0).1
    · rw [modify_get_ne hox] at hx; exact h.bare x ob hx hkx
  · intro x ob g hx hs
    by_cases hox : o = x
    · subst hox
      cases h0 : u.objs[o]? with
      | none =>
        have : (u.modify o f).objs[o]? = none := by simp [U.modify, h0]
        rw [this] at hx; cases hx
      | some ob0 => rw [modify_get_eq h0] at hx; cases hx; rw [(hf ob0 h0).2] at hs; cases hs
    · rw [modify_get_ne hox] at hx
      rcases h.desc x ob g hx hs with hp | hdd
      · exact .inl hp
      · exact .inr (hdd.mono hg)

/-- the objects after `u.Function(n)` etc.: the old ones, or one new declaration object -/
theorem decl_new (u : U) (d : Decl) (n : Name) (o : Nat) (ob : Obj) (h : (u.decl d n).1.objs[o]? = some ob) :
    u.objs[o]? = some ob ∨ (ob.kind = .declarationOf ∧ ob.src = none ∧ ob.nsrc = none) := by
  have hp := (package_objs u n.pkg).1
  cases d <;> (
    unfold U.decl at h
    simp only at h
    split at h
    · exact .inl h
    · simp only [U.newObj] at h
      rw [hp] at h
      rcases getElem?_append_new _ _ _ _ h with hold | ⟨_, rfl⟩
      · exact .inl hold
      · exact .inr ⟨rfl, rfl, rfl⟩)

theorem decl_dinv {F : Facts} {v2 : Bool} {bt : List Builtin} {u : U} {P : List Nat} (d : Decl) (n : Name) (hi : WalkInv.Inv bt u)
    (h : DInv F v2 u P) : DInv F v2 (u.decl d n).1 P := by
  have hg := (decl_inv (bt := bt) d n hi).2.1
  refine ⟨?_, ?_, ?_, ?_⟩
  · intro o ob hob hk
    rcases decl_new u d n o ob hob with hold | hnew
    · exact h.bare o ob hold hk
    · rw [hnew.1] at hk; cases hk
  · intro o ob g hob hs
    rcases decl_new u d n o ob hob with hold | hnew
    · rcases h.desc o ob g hold hs with hp | hd
      · exact .inl hp
      · exact .inr (hd.mono hg)
    · rw [hnew.2.1] at hs; cases hs
  · intro o ob hob hk
    rcases decl_new u d n o ob hob with hold | hnew
    · exact h.meth.fresh o ob hold hk
    · exact hnew.2.2
  · intro o ob g hob hs
    rcases decl_new u d n o ob hob with hold | hnew
    · rcases h.meth.mdesc o ob g hold hs with hp | hd
      · exact .inl hp
      · exact .inr (hd.mono hg)
    · rw [hnew.2.2] at hs; cases hs

theorem addDecl_full {bt : List Builtin} (F : Facts) (v2 : Bool) (hwf : WellFormed F v2) (fuel : Nat) (u : U)
    (d : Decl) (n : Name) (ty : Nat) (cv : Option Str) (u' : U) (h : Full bt F v2 u)
    (hf : addDecl bt F v2 fuel u d n ty cv = some u') : Full bt F v2 u' := by
  refine ⟨(addDecl_inv F v2 fuel u d n ty cv u' h.1 hf).1, ?_⟩
  unfold addDecl at hf
  obtain ⟨h1, g1, ob, hob, hk⟩ := decl_inv (bt := bt) d n h.1
  have d1 := decl_dinv (F := F) (v2 := v2) (P := []) d n h.1 h.2
  -- the declaration object has no source node
  have hsrc : ob.src = none := by
    rcases decl_new u d n _ ob hob with hold | hnew
    · cases hsr : ob.src with
      | none => rfl
      | some g =>
        rcases h.2.desc _ ob g hold hsr with hp | hd
        · cases hp
        · -- a described object never has kind DeclarationOf
          unfold Desc at hd
          cases hn : F.node g <;> simp only [hn] at hd <;> first
            | (have := hd.1; rw [hk] at this; cases this)
            | (rw [hk] at hd; cases hd)
            | exact hd.elim
    · exact hnew.2.1
  obtain ⟨h2, g2⟩ := modify_inv (o := (u.decl d n).2) (f := fun ob => { ob with kind := .declarationOf })
    (fun ob' hob' => ⟨rfl, fun _ => by rw [hob] at hob'; cases hob'; exact hk.symm, fun r hr => .inl hr⟩) h1
  have d2 : DInv F v2 ((u.decl d n).1.modify (u.decl d n).2 (fun ob => { ob with kind := .declarationOf })) [] :=
    modify_nosrc_dinv g2 (fun ob' hob' => by rw [hob] at hob'; cases hob'; exact ⟨by simp, hsrc⟩)
      (fun _ => ⟨rfl, rfl, rfl, fun hh => by cases hh⟩) d1
  cases hw : walk bt F v2 fuel ((u.decl d n).1.modify (u.decl d n).2 (fun ob => { ob with kind := .declarationOf })) ty none with
  | none => simp [hw] at hf
  | some p =>
    obtain ⟨u3, o3⟩ := p
    simp only [hw, Option.some.injEq] at hf
    subst hf
    have p3 := walk_inv bt F v2 fuel _ _ _ _ _ h2 hw
    obtain ⟨d3, f3, _, _⟩ := walk_desc bt F v2 hwf fuel _ ty none u3 o3 [] h2 d2 hw
    have hob3 : u3.objs[(u.decl d n).2]? = some { ob with kind := .declarationOf } :=
      f3 _ _ (modify_get_eq hob) (by simp)
    obtain ⟨_, g4⟩ := modify_inv (o := (u.decl d n).2)
      (f := fun ob => { ob with under := some o3, constVal := if cv.isSome = true then cv else ob.constVal })
      (fun ob' _ => ⟨rfl, fun _ => rfl, fun r hr => by
        simp only [refs, List.mem_append, Option.mem_toList] at hr ⊢
        rcases hr with (((((((hr | hr) | hr) | hr) | hr) | hr) | hr) | hr) | hr
        · exact .inl (.inl (.inl (.inl (.inl (.inl (.inl (.inl (.inl hr))))))))
        · exact .inl (.inl (.inl (.inl (.inl (.inl (.inl (.inl (.inr hr))))))))
        · right; simp only [Option.some.injEq] at hr; subst hr; exact p3.good
        · exact .inl (.inl (.inl (.inl (.inl (.inl (.inr hr))))))
        · exact .inl (.inl (.inl (.inl (.inl (.inr hr)))))
        · exact .inl (.inl (.inl (.inl (.inr hr))))
        · exact .inl (.inl (.inl (.inr hr)))
        · exact .inl (.inl (.inr hr))
        · exact .inl (.inr hr)⟩) p3.inv
    exact modify_nosrc_dinv g4 (fun ob' hob' => by rw [hob3] at hob'; cases hob'; exact ⟨by simp, hsrc⟩)
      (fun _ => ⟨rfl, rfl, rfl, fun hh => hh⟩) d3

theorem addObj_full {bt : List Builtin} (F : Facts) (v2 : Bool) (hwf : WellFormed F v2) (fuel : Nat) (u : U)
    (ob : GObj) (u' : U) (h : Full bt F v2 u) (hf : addObj bt F v2 fuel u ob = some u') : Full bt F v2 u' := by
  unfold addObj at hf
  cases hk : ob.kind with
  | typeName =>
    simp only [hk] at hf
    cases hw : walk bt F v2 fuel u ob.ty none with
    | none => simp [hw] at hf
    | some p =>
      simp only [hw, Option.map_some, Option.some.injEq] at hf
      subst hf
      exact ⟨(walk_inv bt F v2 fuel _ _ _ _ _ h.1 hw).inv, (walk_desc bt F v2 hwf fuel _ _ _ _ _ [] h.1 h.2 hw).1⟩
  | func => simp only [hk] at hf; exact addDecl_full F v2 hwf fuel u _ _ _ _ u' h hf
  | var => simp only [hk] at hf; exact addDecl_full F v2 hwf fuel u _ _ _ _ u' h hf
  | const => simp only [hk] at hf; exact addDecl_full F v2 hwf fuel u _ _ _ _ u' h hf

theorem addObjs_full {bt : List Builtin} (F : Facts) (v2 : Bool) (hwf : WellFormed F v2) (fuel : Nat) :
    ∀ (obs : List GObj) (u u' : U), Full bt F v2 u → addObjs bt F v2 fuel u obs = some u' → Full bt F v2 u' := by
  intro obs
  induction obs with
  | nil => intro u u' h hf; simp only [addObjs, Option.some.injEq] at hf; subst hf; exact h
  | cons ob rest ih =>
    intro u u' h hf
    simp only [addObjs] at hf
    cases ha : addObj bt F v2 fuel u ob with
    | none => simp [ha] at hf
    | some u1 =>
      simp only [ha] at hf
      exact ih u1 u' (addObj_full F v2 hwf fuel u ob u1 h ha) hf

/-- records of packages and imports are no part of the object store -/
theorem full_of_same {bt : List Builtin} {F : Facts} {v2 : Bool} {u u' : U} (ho : u'.objs = u.objs) (ht : u'.types = u.types)
    (hb : u'.builtinObjs = u.builtinObjs) (hd : declObjs u' = declObjs u) (h : Full bt F v2 u) : Full bt F v2 u' := by
  obtain ⟨hi, hg⟩ := inv_of_same ho ht hb hd h.1
  exact ⟨hi, dinv_of_same ho hg h.2⟩

theorem scanPkg_full {bt : List Builtin} (F : Facts) (v2 : Bool) (hwf : WellFormed F v2) (fuel : Nat) (u : U)
    (p : GPkg) (u' : U) (h : Full bt F v2 u) (hf : scanPkg bt F v2 fuel u p = some u') : Full bt F v2 u' := by
  unfold scanPkg at hf
  obtain ⟨a, b, c, d⟩ := package_objs u p.path
  have h1 := full_of_same (u' := (u.package p.path).setPkg p.path (fun r => { r with name := p.name })) a b c d h
  cases ha : addObjs bt F v2 fuel ((u.package p.path).setPkg p.path (fun r => { r with name := p.name })) p.scope with
  | none => simp [ha] at hf
  | some u2 =>
    simp only [ha, Option.some.injEq] at hf
    subst hf
    have h2 := addObjs_full F v2 hwf fuel _ _ _ h1 ha
    obtain ⟨a', b', c', d'⟩ := addImports_same u2 p.path (p.imports.mergeSort Str.le)
    exact full_of_same a' b' c' d' h2

theorem full_empty (bt : List Builtin) (F : Facts) (v2 : Bool) : Full bt F v2 {} :=
  ⟨inv_empty bt, ⟨fun o ob h => by simp at h, fun o ob g h => by simp at h,
    ⟨fun o ob h => by simp at h, fun o ob g h => by simp at h⟩⟩⟩

theorem visitV2_full (w : World) (hwf : WellFormed w.facts w.v2) :
    ∀ (n : Nat) (st st' : LState) (path : Str), Full w.bt w.facts w.v2 st.u →
    visitV2 w n st path = some st' → Full w.bt w.facts w.v2 st'.u := by
  intro n
  induction n with
  | zero => intro st st' path _ h; simp [visitV2] at h
  | succ n ih =>
    intro st st' path hinv h
    simp only [visitV2] at h
    split at h
    · cases h; exact hinv
    · cases hf : w.find path with
      | none => simp [hf] at h
      | some p =>
        simp only [hf] at h
        obtain ⟨a, b, c, d⟩ := package_objs st.u path
        have h1 := full_of_same a b c d hinv
        split at h
        · cases h; exact h1
        · obtain ⟨a2, b2, c2, d2⟩ := package_objs (st.u.package path) p.path
          have h2 := full_of_same (u' := ((st.u.package path).package p.path).setPkg p.path (fun r => { r with name := p.name })) a2 b2 c2 d2 h1
          cases ha : addObjs w.bt w.facts w.v2 w.fuel (((st.u.package path).package p.path).setPkg p.path (fun r => { r with name := p.name })) p.scope with
          | none => simp [ha] at h
          | some u3 =>
            simp only [ha] at h
            have h3 := addObjs_full w.facts w.v2 hwf w.fuel _ _ _ h2 ha
            generalize hst3 : ({ u := u3, requested := st.requested, processed := st.processed ++ [path] } : LState) = st3 at h
            cases hfold : p.imports.foldl (fun acc i => acc.bind (fun s => visitV2 w n s i)) (some st3) with
            | none => simp [hfold] at h
            | some st4 =>
              simp only [hfold, Option.some.injEq] at h
              subst h
              have h4 := foldl_bind_inv (fun s i => visitV2 w n s i) (fun s => Full w.bt w.facts w.v2 s.u)
                (fun s i s' hs hv => ih s s' i hs hv) p.imports st3 st4 (by subst hst3; exact h3) hfold
              obtain ⟨a5, b5, c5, d5⟩ := addImports_same st4.u p.path (p.imports.mergeSort Str.le)
              exact full_of_same a5 b5 c5 d5 h4

theorem addPkgsV2_full (w : World) (hwf : WellFormed w.facts w.v2) (st st' : LState) (roots : List Str)
    (hinv : Full w.bt w.facts w.v2 st.u) (h : addPkgsV2 w st roots = some st') : Full w.bt w.facts w.v2 st'.u := by
  unfold addPkgsV2 at h
  exact foldl_bind_inv (fun s p => visitV2 w (w.pkgs.length + 1) s p) (fun s => Full w.bt w.facts w.v2 s.u)
    (fun s p s' hs hv => visitV2_full w hwf _ s s' p hs hv) _ st st' hinv h

/-- **v2_universe_described**: after `LoadPackages` + `NewUniverse` from nothing the universe is closed, canonical and
every filled object is described by its node -/
theorem newUniverseV2_full (w : World) (hwf : WellFormed w.facts w.v2) (req : List Str) (st : LState)
    (h : newUniverseV2 w req = some st) : Full w.bt w.facts w.v2 st.u := by
  unfold newUniverseV2 at h
  exact addPkgsV2_full w hwf _ st _ (full_empty w.bt w.facts w.v2) h

theorem loadToV2_full (w : World) (hwf : WellFormed w.facts w.v2) (st st' : LState) (more : List Str)
    (hinv : Full w.bt w.facts w.v2 st.u) (h : loadToV2 w st more = some st') : Full w.bt w.facts w.v2 st'.u := by
  unfold loadToV2 at h
  exact addPkgsV2_full w hwf { st with requested := more.foldl (fun acc r => if acc.contains r then acc else acc ++ [r]) st.requested } st' more hinv h

theorem findTypesInV1_full (w : World) (hwf : WellFormed w.facts w.v2) (st st' : LState) (path : Str)
    (hinv : Full w.bt w.facts w.v2 st.u) (h : findTypesInV1 w st path = some st') : Full w.bt w.facts w.v2 st'.u := by
  unfold findTypesInV1 at h
  cases hf : w.find path with
  | none => simp [hf] at h
  | some p =>
    simp only [hf] at h
    split at h
    · cases h; exact hinv
    · cases hs : scanPkg w.bt w.facts w.v2 w.fuel st.u p with
      | none => simp [hs] at h
      | some u' =>
        simp only [hs, Option.map_some, Option.some.injEq] at h
        subst h
        exact scanPkg_full w.facts w.v2 hwf w.fuel st.u p u' hinv hs

/-- **v1_universe_described**: the same for `AddDir…` + `FindTypes` -/
theorem findTypesV1_full (w : World) (hwf : WellFormed w.facts w.v2) (req : List Str) (st : LState)
    (h : findTypesV1 w req = some st) : Full w.bt w.facts w.v2 st.u := by
  unfold findTypesV1 at h
  exact foldl_bind_inv (fun s p => findTypesInV1 w s p) (fun s => Full w.bt w.facts w.v2 s.u)
    (fun s p s' hs hv => findTypesInV1_full w hwf s s' p hs hv) _ _ st (full_empty w.bt w.facts w.v2) h

theorem addDirToV1_full (w : World) (hwf : WellFormed w.facts w.v2) (st st' : LState) (path : Str)
    (hinv : Full w.bt w.facts w.v2 st.u) (h : addDirToV1 w st path = some st') : Full w.bt w.facts w.v2 st'.u := by
  unfold addDirToV1 at h
  exact findTypesInV1_full w hwf { st with requested := if st.requested.contains path then st.requested else st.requested ++ [path] } st' path hinv h

/-- what `Full` gives a reader of the universe: any object with a source node is what that node says -/
theorem described {bt : List Builtin} {F : Facts} {v2 : Bool} {u : U} (h : Full bt F v2 u) (o : Nat) (ob : Obj) (g : Nat)
    (hob : u.objs[o]? = some ob) (hs : ob.src = some g) : Desc F v2 u ob g := by
  rcases h.2.desc o ob g hob hs with hp | hd
  · cases hp
  · exact hd

end Gengo.WalkDesc

import Gengo.Model.FactsCheck
import Gengo.Lemmas.WalkIso
/-!
# The executable hypothesis checks are sound

`noGenericsB`, `wellFormedB`, `consistentB` answer `true` only for tables whose facts are `NoGenerics`,
`WellFormed`, `Consistent`.
-/
namespace Gengo.FactsCheck
open Gengo Gengo.Universe Gengo.WalkDesc Gengo.WalkName Gengo.WalkIso

theorem node_cases (t : Tab) (g : Nat) :
    (g < t.nodes.size ∧ t.facts.node g ∈ t.nodes.toList) ∨ (t.nodes.size ≤ g ∧ t.facts.node g = .other) := by
  by_cases h : g < t.nodes.size
  · left
    refine ⟨h, ?_⟩
    simp only [Tab.facts, Array.getD, h, dite_true]
    exact Array.getElem_mem_toList h
  · right
    refine ⟨Nat.le_of_not_lt h, ?_⟩
    simp only [Tab.facts, Array.getD, h, dite_false]

theorem str_beyond (t : Tab) (g : Nat) (h : t.nodes.size ≤ g) (hs : t.strs.size ≤ t.nodes.size) : t.facts.str g = [] := by
  have : ¬ g < t.strs.size := by omega
  simp only [Tab.facts, Array.getD, this, dite_false]

theorem noGenericsB_sound (t : Tab) (h : noGenericsB t = true) : NoGenerics t.facts := by
  simp only [noGenericsB, List.all_eq_true] at h
  refine ⟨?_, ?_⟩
  · intro g und ms tps ou hn
    rcases node_cases t g with ⟨_, hm⟩ | ⟨_, ho⟩
    · have := h _ hm
      rw [hn] at this
      simpa using this
    · rw [hn] at ho; cases ho
  · intro g c hn
    rcases node_cases t g with ⟨_, hm⟩ | ⟨_, ho⟩
    · have := h _ hm
      rw [hn] at this
      simp at this
    · rw [hn] at ho; cases ho

theorem isSome_shape {v2 : Bool} {gn : GNode} (h : (shape v2 gn).isSome = true) : ∃ K kids, shape v2 gn = some (K, kids) := by
  cases hs : shape v2 gn with
  | none => rw [hs] at h; cases h
  | some p => exact ⟨p.1, p.2, rfl⟩

theorem wellFormedB_sound (v2 : Bool) (t : Tab) (h : wellFormedB v2 t = true) : WellFormed t.facts v2 := by
  simp only [wellFormedB, List.all_eq_true] at h
  refine ⟨?_, ?_⟩
  rotate_left
  · intro g ms hn
    rcases hn with hn | ⟨und, tps, ou, hn⟩
    · rcases node_cases t g with ⟨_, hm⟩ | ⟨_, ho⟩
      · have := h _ hm
        rw [hn] at this
        simp only [Bool.and_eq_true, decide_eq_true_eq, List.all_eq_true] at this
        exact ⟨this.1, fun m hmem => isSome_shape (this.2 m hmem)⟩
      · rw [hn] at ho; cases ho
    · rcases node_cases t g with ⟨_, hm⟩ | ⟨_, ho⟩
      · have := h _ hm
        rw [hn] at this
        simp only [Bool.and_eq_true, decide_eq_true_eq, List.all_eq_true] at this
        exact ⟨this.1.2, fun m hmem => isSome_shape (this.2 m hmem)⟩
      · rw [hn] at ho; cases ho
  intro g und ms tps ou hn
  rcases node_cases t g with ⟨_, hm⟩ | ⟨_, ho⟩
  · have := h _ hm
    rw [hn] at this
    simp only [Bool.and_eq_true, Bool.or_eq_true] at this
    obtain ⟨⟨⟨h1, h2⟩, _⟩, _⟩ := this
    refine ⟨?_, ?_⟩
    · rcases h1 with h1 | h1
      · exact .inl h1
      · exact .inr (isSome_shape h1)
    · intro ha hsi
      cases hs : shape v2 (t.facts.node ou) with
      | none => simp [ha, hsi, hs] at h2
      | some p => exact ⟨p.1, p.2, rfl⟩
  · rw [hn] at ho; cases ho

/-! ## `consistentB` -/

theorem resNameF_sound (F : Facts) (v2 : Bool) : ∀ (fuel c : Nat) (b : Bool) (n : Name), resNameF F v2 fuel c = some (b, n) → ResName F v2 c b n := by
  intro fuel
  induction fuel with
  | zero => intro c b n h; simp [resNameF] at h
  | succ fuel ih =>
    intro c b n h
    simp only [resNameF] at h
    cases hn : F.node c with
    | alias t => rw [hn] at h; exact .alias hn (ih t b n h)
    | basic nm => rw [hn] at h; simp only [Option.some.injEq, Prod.mk.injEq] at h; obtain ⟨rfl, rfl⟩ := h; exact .basic hn
    | tparam k => rw [hn] at h; simp only [Option.some.injEq, Prod.mk.injEq] at h; obtain ⟨rfl, rfl⟩ := h; exact .tparam hn
    | _ =>
      rw [hn] at h
      simp only [Option.some.injEq, Prod.mk.injEq] at h
      obtain ⟨rfl, rfl⟩ := h
      exact .byName (by intro t ht; rw [hn] at ht; cases ht) (by intro nm ht; rw [hn] at ht; cases ht) (by intro k ht; rw [hn] at ht; cases ht)

theorem kidEqB_sound (F : Facts) (v2 : Bool) (fuel a b : Nat) (h : kidEqB F v2 fuel a b = true) : KidEq F v2 a b := by
  unfold kidEqB at h
  cases ha : resNameF F v2 fuel a with
  | none => simp [ha] at h
  | some n =>
    cases hb : resNameF F v2 fuel b with
    | none => simp [ha, hb] at h
    | some m =>
      simp only [ha, hb, decide_eq_true_eq] at h
      subst h
      exact ⟨n.1, n.2, resNameF_sound F v2 fuel a n.1 n.2 ha, resNameF_sound F v2 fuel b n.1 n.2 hb⟩

theorem all2B_sound {α β : Type} {r : α → β → Bool} {R : α → β → Prop} (hr : ∀ a b, r a b = true → R a b) :
    ∀ (l₁ : List α) (l₂ : List β), all2B r l₁ l₂ = true → All2 R l₁ l₂ := by
  intro l₁
  induction l₁ with
  | nil => intro l₂ h; cases l₂ with
    | nil => exact .nil
    | cons _ _ => simp [all2B] at h
  | cons a as ih =>
    intro l₂ h
    cases l₂ with
    | nil => simp [all2B] at h
    | cons b bs =>
      simp only [all2B, Bool.and_eq_true] at h
      exact .cons (hr a b h.1) (ih bs h.2)

theorem nodeEqB_sound (F : Facts) (v2 : Bool) (fuel g1 g2 : Nat) (h : nodeEqB F v2 fuel g1 g2 = true) : NodeEq F v2 g1 g2 := by
  unfold nodeEqB at h
  unfold NodeEq
  cases hn1 : F.node g1 <;> cases hn2 : F.node g2 <;> simp only [hn1, hn2] at h ⊢ <;> try (exact Bool.noConfusion h)
  case pointer.pointer a b => exact kidEqB_sound F v2 fuel a b h
  case slice.slice a b => exact kidEqB_sound F v2 fuel a b h
  case chan.chan a b => exact kidEqB_sound F v2 fuel a b h
  case array.array l a m b =>
    simp only [Bool.and_eq_true, decide_eq_true_eq] at h
    exact ⟨h.1, kidEqB_sound F v2 fuel a b h.2⟩
  case map.map k a k' b =>
    simp only [Bool.and_eq_true] at h
    exact ⟨kidEqB_sound F v2 fuel k k' h.1, kidEqB_sound F v2 fuel a b h.2⟩
  case struct.struct fs gs =>
    refine all2B_sound (fun f g hfg => ?_) fs gs h
    simp only [Bool.and_eq_true, decide_eq_true_eq] at hfg
    exact ⟨hfg.1.1.1, hfg.1.1.2, hfg.1.2, kidEqB_sound F v2 fuel _ _ hfg.2⟩
  case sig.sig ps rs va rc ps' rs' va' rc' =>
    simp only [Bool.and_eq_true, decide_eq_true_eq] at h
    obtain ⟨⟨hp, hr⟩, hv⟩ := h
    refine ⟨all2B_sound (fun p q hpq => ?_) ps ps' hp, all2B_sound (fun p q hpq => ?_) rs rs' hr, hv⟩
    · simp only [Bool.and_eq_true, decide_eq_true_eq] at hpq
      exact ⟨hpq.1, kidEqB_sound F v2 fuel _ _ hpq.2⟩
    · simp only [Bool.and_eq_true, decide_eq_true_eq] at hpq
      exact ⟨hpq.1, kidEqB_sound F v2 fuel _ _ hpq.2⟩
  case named.named a _ _ _ b _ _ _ => exact kidEqB_sound F v2 fuel a b h
  case iface.iface ms ms' => exact of_decide_eq_true h

theorem nodeEq_congr {F : Facts} {v2 : Bool} {a a' b b' : Nat} (ha : F.node a = F.node a') (hb : F.node b = F.node b')
    (h : NodeEq F v2 a' b') : NodeEq F v2 a b := by
  unfold NodeEq at h ⊢
  rw [ha, hb]; exact h

theorem mem_filings (v2 : Bool) (t : Tab) (g : Nat) (hg : g ≤ t.nodes.size) (x : Name × Nat) (hx : x ∈ filingsOf t.facts v2 g) :
    x ∈ filings v2 t := by
  unfold filings
  exact List.mem_flatMap.mpr ⟨g, List.mem_range.mpr (by omega), hx⟩

/-- every way `walkType` can file a node under a name is listed, nodes beyond the table being represented by index `size` -/
theorem nameFor_filed (v2 : Bool) (t : Tab) (hs : t.strs.size ≤ t.nodes.size) {n : Name} {g : Nat} (h : NameFor t.facts v2 n g) :
    ∃ g', (n, g') ∈ filings v2 t ∧ t.facts.node g' = t.facts.node g := by
  cases h with
  | self g hsh =>
    by_cases hg : g ≤ t.nodes.size
    · refine ⟨g, mem_filings v2 t g hg _ ?_, rfl⟩
      rcases hsh with ⟨K, kids, hk⟩ | ⟨und, ms, tps, ou, hn, ha⟩
      · simp only [filingsOf, hk, Option.isSome_some, if_true]
        exact List.mem_append_left _ (List.mem_singleton.mpr rfl)
      · simp only [filingsOf, hn, ha, if_true]
        exact List.mem_append_right _ (List.mem_append_left _ (List.mem_singleton.mpr rfl))
    · have hgt : t.nodes.size ≤ g := by omega
      have hno : t.facts.node g = .other := by
        rcases node_cases t g with ⟨hlt, _⟩ | ⟨_, ho⟩
        · omega
        · exact ho
      have hsz : t.facts.node t.nodes.size = .other := by
        rcases node_cases t t.nodes.size with ⟨hlt, _⟩ | ⟨_, ho⟩
        · omega
        · exact ho
      refine ⟨t.nodes.size, mem_filings v2 t _ (Nat.le_refl _) _ ?_, by rw [hsz, hno]⟩
      rw [str_beyond t g hgt hs, ← str_beyond t t.nodes.size (Nat.le_refl _) hs]
      simp only [filingsOf, hsz, shape, Option.isSome_some, if_true]
      exact List.mem_append_left _ (List.mem_singleton.mpr rfl)
  | basic hn =>
    rcases node_cases t g with ⟨hlt, _⟩ | ⟨_, ho⟩
    · refine ⟨g, mem_filings v2 t g (by omega) _ ?_, rfl⟩
      simp only [filingsOf, hn]
      exact List.mem_append_right _ (List.mem_singleton.mpr rfl)
    · rw [hn] at ho; cases ho
  | @under g' und ou ms tps hn ha hsi =>
    rcases node_cases t g' with ⟨hlt, _⟩ | ⟨_, ho⟩
    · refine ⟨g, mem_filings v2 t g' (by omega) _ ?_, rfl⟩
      simp only [filingsOf, hn, ha, hsi, Bool.false_eq_true, if_false]
      exact List.mem_append_right _ (List.mem_append_left _ (List.mem_singleton.mpr rfl))
    · rw [hn] at ho; cases ho
  | @orig g' und ou ms tps hn ha hsi =>
    rcases node_cases t g' with ⟨hlt, _⟩ | ⟨_, ho⟩
    · refine ⟨g, mem_filings v2 t g' (by omega) _ ?_, rfl⟩
      simp only [filingsOf, hn, ha, hsi, Bool.false_eq_true, if_false, if_true]
      exact List.mem_append_right _ (List.mem_append_left _ (List.mem_singleton.mpr rfl))
    · rw [hn] at ho; cases ho
  | @method g' und ou ms tps m hn hm =>
    rcases node_cases t g' with ⟨hlt, _⟩ | ⟨_, ho⟩
    · refine ⟨m.sig, mem_filings v2 t g' (by omega) _ ?_, rfl⟩
      simp only [filingsOf, hn]
      exact List.mem_append_right _ (List.mem_append_right _ (List.mem_map.mpr ⟨m, hm, rfl⟩))
    · rw [hn] at ho; cases ho
  | @imethod g' ms m hn hm =>
    rcases node_cases t g' with ⟨hlt, _⟩ | ⟨_, ho⟩
    · refine ⟨m.sig, mem_filings v2 t g' (by omega) _ ?_, rfl⟩
      simp only [filingsOf, hn]
      exact List.mem_append_right _ (List.mem_map.mpr ⟨m, hm, rfl⟩)
    · rw [hn] at ho; cases ho

theorem consistentB_sound (v2 : Bool) (t : Tab) (hs : t.strs.size ≤ t.nodes.size) (h : consistentB v2 t = true) :
    Consistent t.facts v2 := by
  intro n g1 g2 h1 h2
  obtain ⟨a, ha, ea⟩ := nameFor_filed v2 t hs h1
  obtain ⟨b, hb, eb⟩ := nameFor_filed v2 t hs h2
  simp only [consistentB, List.all_eq_true] at h
  have := h _ ha _ hb
  simp only [bne_self_eq_false, Bool.false_or] at this
  exact nodeEq_congr ea.symm eb.symm (nodeEqB_sound _ _ _ _ _ this)

end Gengo.FactsCheck

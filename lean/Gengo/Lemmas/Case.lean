import Gengo.Basic.Str
/-! ASCII case functions -/
namespace Gengo.Str

theorem toNat_ofNat_small (n : Nat) (h : n < 0xd800) : (Char.ofNat n).toNat = n := by
  simp [Char.ofNat, Char.toNat, Char.ofNatAux, Nat.isValidChar, h]

theorem lower_upper (c : Char) : lower (upper c) = lower c := by
  unfold upper
  split
  · rename_i h
    simp only [isAsciiLower, Bool.and_eq_true, decide_eq_true_eq] at h
    have h1 : (Char.ofNat (c.toNat - 32)).toNat = c.toNat - 32 := toNat_ofNat_small _ (by omega)
    unfold lower
    have hu : isAsciiUpper (Char.ofNat (c.toNat - 32)) = true := by
      simp only [isAsciiUpper, h1, Bool.and_eq_true, decide_eq_true_eq]; omega
    have hn : isAsciiUpper c = false := by
      simp only [isAsciiUpper, Bool.and_eq_false_iff, decide_eq_false_iff_not]; omega
    rw [if_pos hu, hn, h1]
    simp only [Bool.false_eq_true, if_false]
    have : c.toNat - 32 + 32 = c.toNat := by omega
    rw [this]
    exact Char.ofNat_toNat c
  · rfl

theorem lower_lower (c : Char) : lower (lower c) = lower c := by
  unfold lower
  split
  · rename_i h
    simp only [isAsciiUpper, Bool.and_eq_true, decide_eq_true_eq] at h
    have h1 : (Char.ofNat (c.toNat + 32)).toNat = c.toNat + 32 := toNat_ofNat_small _ (by omega)
    have : isAsciiUpper (Char.ofNat (c.toNat + 32)) = false := by
      simp only [isAsciiUpper, h1, Bool.and_eq_false_iff, decide_eq_false_iff_not]; omega
    rw [this]; simp
  · rename_i h; simp [h]

/-- `upper` yields a non-lower-case character -/
theorem upper_not_lower (c : Char) : isAsciiLower (upper c) = false := by
  unfold upper
  split
  · rename_i h
    simp only [isAsciiLower, Bool.and_eq_true, decide_eq_true_eq] at h
    have h1 : (Char.ofNat (c.toNat - 32)).toNat = c.toNat - 32 := toNat_ofNat_small _ (by omega)
    simp only [isAsciiLower, h1, Bool.and_eq_false_iff, decide_eq_false_iff_not]; omega
  · rename_i h; simpa using h

theorem lower_not_upper (c : Char) : isAsciiUpper (lower c) = false := by
  unfold lower
  split
  · rename_i h
    simp only [isAsciiUpper, Bool.and_eq_true, decide_eq_true_eq] at h
    have h1 : (Char.ofNat (c.toNat + 32)).toNat = c.toNat + 32 := toNat_ofNat_small _ (by omega)
    simp only [isAsciiUpper, h1, Bool.and_eq_false_iff, decide_eq_false_iff_not]; omega
  · rename_i h; simpa using h

/-- `upper` of a letter is an upper-case letter -/
theorem upper_letter (c : Char) (h : isAsciiLetter c = true) : isAsciiUpper (upper c) = true := by
  unfold upper
  split
  · rename_i hl
    simp only [isAsciiLower, Bool.and_eq_true, decide_eq_true_eq] at hl
    have h1 : (Char.ofNat (c.toNat - 32)).toNat = c.toNat - 32 := toNat_ofNat_small _ (by omega)
    simp only [isAsciiUpper, h1, Bool.and_eq_true, decide_eq_true_eq]; omega
  · rename_i hl
    simp only [isAsciiLetter, Bool.or_eq_true] at h
    rcases h with h | h
    · exact h
    · exact absurd h hl

theorem lower_letter (c : Char) (h : isAsciiLetter c = true) : isAsciiLower (lower c) = true := by
  unfold lower
  split
  · rename_i hl
    simp only [isAsciiUpper, Bool.and_eq_true, decide_eq_true_eq] at hl
    have h1 : (Char.ofNat (c.toNat + 32)).toNat = c.toNat + 32 := toNat_ofNat_small _ (by omega)
    simp only [isAsciiLower, h1, Bool.and_eq_true, decide_eq_true_eq]; omega
  · rename_i hl
    simp only [isAsciiLetter, Bool.or_eq_true] at h
    rcases h with h | h
    · exact absurd h hl
    · exact h

end Gengo.Str

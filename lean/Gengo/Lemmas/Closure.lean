import Gengo.Model.Closure
/-! Warshall's algorithm over arbitrary iteration orders computes reachability (lemmas for C18). -/
namespace Gengo.Closure

/-- paths of ≥ 1 edge whose intermediate nodes satisfy `K` -/
inductive PathVia (E : Node → Node → Prop) (K : Node → Prop) : Node → Node → Prop
  | edge {i j} : E i j → PathVia E K i j
  | cons {i m j} : E i m → K m → PathVia E K m j → PathVia E K i j

theorem PathVia.mono {E K K'} (h : ∀ n, K n → K' n) {i j} (p : PathVia E K i j) : PathVia E K' i j := by
  induction p with
  | edge e => exact .edge e
  | cons e km _ ih => exact .cons e (h _ km) ih

theorem PathVia.trans {E K} {i m j} (p : PathVia E K i m) (km : K m) (q : PathVia E K m j) :
    PathVia E K i j := by
  induction p with
  | edge e => exact .cons e km q
  | cons e kx _ ih => exact .cons e kx (ih km q)

theorem PathVia.split {E K} {k i j} (p : PathVia E (fun n => K n ∨ n = k) i j) :
    PathVia E K i j ∨ (PathVia E K i k ∧ PathVia E K k j) := by
  induction p with
  | edge e => exact .inl (.edge e)
  | cons e km _ ih =>
    rcases km with km | rfl
    · rcases ih with h | ⟨h1, h2⟩
      · exact .inl (.cons e km h)
      · exact .inr ⟨.cons e km h1, h2⟩
    · rcases ih with h | ⟨_, h2⟩
      · exact .inr ⟨.edge e, h⟩
      · exact .inr ⟨.edge e, h2⟩

/-! monotonicity -/
theorem has_stepJ_mono {k i adj j a b} (h : has adj a b) : has (stepJ k i adj j) a b := by
  unfold stepJ; split
  · exact h
  · split
    · simp [has] at *; exact .inr h
    · exact h

theorem has_foldJ_mono {k i} (l : List Node) {adj a b} (h : has adj a b) :
    has (l.foldl (stepJ k i) adj) a b := by
  induction l generalizing adj with
  | nil => exact h
  | cons x xs ih => exact ih (has_stepJ_mono h)

theorem has_stepI_mono {k js adj i a b} (h : has adj a b) : has (stepI k js adj i) a b := by
  unfold stepI; split
  · exact h
  · exact has_foldJ_mono _ h

theorem has_foldI_mono {k js} (l : List Node) {adj a b} (h : has adj a b) :
    has (l.foldl (stepI k js) adj) a b := by
  induction l generalizing adj with
  | nil => exact h
  | cons x xs ih => exact ih (has_stepI_mono h)

theorem has_stepK_mono {is js adj k a b} (h : has adj a b) : has (stepK is js adj k) a b :=
  has_foldI_mono _ h

/-! what one `k` round adds -/
theorem foldJ_sets {k i} (l : List Node) {adj j} (hj : j ∈ l) (hkj : has adj k j) :
    has (l.foldl (stepJ k i) adj) i j := by
  induction l generalizing adj with
  | nil => cases hj
  | cons x xs ih =>
    simp only [List.foldl_cons]
    rcases List.mem_cons.mp hj with rfl | hx
    · apply has_foldJ_mono
      unfold stepJ
      by_cases h1 : has adj i j
      · simp [h1]
      · simp only [h1, hkj]; simp [has]
    · exact ih hx (has_stepJ_mono hkj)

theorem foldI_sets {k js} (l : List Node) {adj i j} (hi : i ∈ l) (hj : j ∈ js k i)
    (hik : has adj i k) (hkj : has adj k j) :
    has (l.foldl (stepI k js) adj) i j := by
  induction l generalizing adj with
  | nil => cases hi
  | cons x xs ih =>
    simp only [List.foldl_cons]
    rcases List.mem_cons.mp hi with rfl | hx
    · apply has_foldI_mono
      unfold stepI
      simp [hik]
      exact foldJ_sets _ hj hkj
    · exact ih hx (has_stepI_mono hik) (has_stepI_mono hkj)

/-! soundness: everything in adj is a real path -/
theorem stepJ_sound {E : Node → Node → Prop} {K} {k i adj j}
    (hs : ∀ a b, has adj a b → PathVia E K a b) (hk : K k) (hik : has adj i k) :
    ∀ a b, has (stepJ k i adj j) a b → PathVia E K a b := by
  intro a b h
  unfold stepJ at h
  split at h
  · exact hs a b h
  · split at h
    · rename_i hkj
      simp [has] at h
      rcases h with ⟨rfl, rfl⟩ | h
      · exact (hs _ _ hik).trans hk (hs _ _ (by simpa [has] using hkj))
      · exact hs a b (by simpa [has] using h)
    · exact hs a b h


abbrev All : Node → Prop := fun _ => True

def Sound (E : Node → Node → Prop) (adj : Adj) : Prop := ∀ a b, has adj a b → PathVia E All a b

theorem foldJ_sound {E k i} (l : List Node) {adj} (hs : Sound E adj) (hik : has adj i k) :
    Sound E (l.foldl (stepJ k i) adj) := by
  induction l generalizing adj with
  | nil => exact hs
  | cons x xs ih => exact ih (stepJ_sound hs trivial hik) (has_stepJ_mono hik)

theorem stepI_sound {E k js adj i} (hs : Sound E adj) : Sound E (stepI k js adj i) := by
  unfold stepI; split
  · exact hs
  · rename_i h; exact foldJ_sound _ hs (by simpa using h)

theorem foldI_sound {E k js} (l : List Node) {adj} (hs : Sound E adj) :
    Sound E (l.foldl (stepI k js) adj) := by
  induction l generalizing adj with
  | nil => exact hs
  | cons x xs ih => exact ih (stepI_sound hs)

theorem PathVia.first {E K i j} (p : PathVia E K i j) : ∃ x, E i x := by
  cases p with
  | edge e => exact ⟨_, e⟩
  | cons e _ _ => exact ⟨_, e⟩

theorem PathVia.last {E K i j} (p : PathVia E K i j) : ∃ x, E x j := by
  induction p with
  | edge e => exact ⟨_, e⟩
  | cons _ _ _ ih => exact ih

def Complete (E : Node → Node → Prop) (K : Node → Prop) (adj : Adj) : Prop :=
  ∀ i j, PathVia E K i j → has adj i j

theorem stepK_complete {adj0 : Adj} {K is js adj k}
    (his : ∀ k i x, has adj0 i x → i ∈ is k) (hjs : ∀ k i j x, has adj0 x j → j ∈ js k i)
    (hs : Sound (fun a b => has adj0 a b) adj) (hc : Complete (fun a b => has adj0 a b) K adj) :
    Complete (fun a b => has adj0 a b) (fun n => K n ∨ n = k) (stepK is js adj k) := by
  intro i j p
  rcases p.split with h | ⟨h1, h2⟩
  · exact has_stepK_mono (hc _ _ h)
  · have hik := hc _ _ h1
    have hkj := hc _ _ h2
    obtain ⟨x, hx⟩ := (hs _ _ hik).first
    obtain ⟨y, hy⟩ := (hs _ _ hkj).last
    exact foldI_sets _ (his k i x hx) (hjs k i j y hy) hik hkj

theorem warshall_inv {adj0 : Adj} {is js}
    (his : ∀ k i x, has adj0 i x → i ∈ is k) (hjs : ∀ k i j x, has adj0 x j → j ∈ js k i)
    (ks : List Node) {adj K}
    (hs : Sound (fun a b => has adj0 a b) adj) (hc : Complete (fun a b => has adj0 a b) K adj) :
    Sound (fun a b => has adj0 a b) (warshall ks is js adj) ∧
    Complete (fun a b => has adj0 a b) (fun n => K n ∨ n ∈ ks) (warshall ks is js adj) := by
  induction ks generalizing adj K with
  | nil =>
    refine ⟨hs, ?_⟩
    intro i j p; exact hc _ _ (p.mono (by intro n h; simpa using h))
  | cons k ks ih =>
    have hs' : Sound (fun a b => has adj0 a b) (stepK is js adj k) := foldI_sound _ hs
    have hc' := stepK_complete his hjs hs hc (k := k)
    obtain ⟨h1, h2⟩ := ih hs' hc'
    refine ⟨h1, ?_⟩
    intro i j p
    exact h2 _ _ (p.mono (by
      intro n h
      rcases h with h | h
      · exact .inl (.inl h)
      · rcases List.mem_cons.mp h with rfl | h
        · exact .inl (.inr rfl)
        · exact .inr h))

/-- The closure computed by the three nested loops, for every iteration order of the three
    key sets (orders may differ per outer iteration), is exactly reachability by ≥ 1 edge. -/
theorem warshall_eq_reach (adj0 : Adj) (ks : List Node) (is : Node → List Node)
    (js : Node → Node → List Node)
    (hks : ∀ m a b, has adj0 a m → has adj0 m b → m ∈ ks)
    (his : ∀ k i x, has adj0 i x → i ∈ is k) (hjs : ∀ k i j x, has adj0 x j → j ∈ js k i)
    (i j : Node) :
    has (warshall ks is js adj0) i j = true ↔ PathVia (fun a b => has adj0 a b) All i j := by
  have hs0 : Sound (fun a b => has adj0 a b) adj0 := fun a b h => .edge h
  have hc0 : Complete (fun a b => has adj0 a b) (fun _ => False) adj0 := by
    intro a b p
    cases p with
    | edge e => exact e
    | cons _ km _ => exact km.elim
  obtain ⟨hs, hc⟩ := warshall_inv his hjs ks hs0 hc0
  constructor
  · exact hs i j
  · intro p
    -- every intermediate node of a path has an in- and an out-edge, hence is in ks
    have : ∀ {a b}, PathVia (fun a b => has adj0 a b) All a b →
        PathVia (fun a b => has adj0 a b) (fun n => False ∨ n ∈ ks) a b := by
      intro a b q
      induction q with
      | edge e => exact .edge e
      | cons e _ q ih =>
        obtain ⟨x, hx⟩ := q.first
        exact .cons e (.inr (hks _ _ _ e hx)) ih
    exact hc _ _ (this p)

end Gengo.Closure

import Gengo.Lemmas.WalkName
/-!
# Two universes built from the same program agree wherever they overlap (C11, C01)

Let `u₁`, `u₂` be universes that satisfy the walk invariants over the same facts – for instance the results
of loading the same packages in two different splits and orders.  If a name is registered and filled in
both, the two objects have the same kind and the attributes that kind carries correspond: lengths, member
names, embedded flags and tags are equal, and every referenced object of the one is registered in `u₁`
under the very name under which its counterpart is registered in `u₂`.  In other words "registered under
the same name" is a bisimulation between the universes: they are isomorphic on their common part, however
the loading was split.

The one assumption about the facts is `Consistent`: nodes that `walkType` files under one name have the same
shape (go/types prints different types differently; F7 is the known exception).
-/
namespace Gengo.WalkIso
open Gengo Gengo.Universe Gengo.WalkInv Gengo.WalkDesc Gengo.WalkName

/-- the name under which a reference to node `c` is resolved (type aliases are transparent); the flag says that `c` is a
type parameter, which is not looked up but stands for a `TypeParam` object of that name -/
inductive ResName (F : Facts) (v2 : Bool) : Nat → Bool → Name → Prop
  | alias {c t : Nat} {b : Bool} {n : Name} : F.node c = .alias t → ResName F v2 t b n → ResName F v2 c b n
  | basic {c : Nat} {nm : Str} : F.node c = .basic nm → ResName F v2 c false ⟨[], nm⟩
  | tparam {c k : Nat} : F.node c = .tparam k → ResName F v2 c true (nameOf v2 (F.str c))
  | byName {c : Nat} : (∀ t, F.node c ≠ .alias t) → (∀ nm, F.node c ≠ .basic nm) → (∀ k, F.node c ≠ .tparam k) →
      ResName F v2 c false (regName F v2 c)

theorem ResName.unique {F : Facts} {v2 : Bool} {c : Nat} {b b' : Bool} {n n' : Name} (h : ResName F v2 c b n) (h' : ResName F v2 c b' n') :
    b = b' ∧ n = n' := by
  induction h generalizing b' n' with
  | alias hn _ ih =>
    cases h' with
    | alias hn' hr' => rw [hn] at hn'; cases hn'; exact ih hr'
    | basic hn' => rw [hn] at hn'; cases hn'
    | tparam hn' => rw [hn] at hn'; cases hn'
    | byName h1 _ _ => exact absurd hn (h1 _)
  | basic hn =>
    cases h' with
    | alias hn' _ => rw [hn] at hn'; cases hn'
    | basic hn' => rw [hn] at hn'; cases hn'; exact ⟨rfl, rfl⟩
    | tparam hn' => rw [hn] at hn'; cases hn'
    | byName _ h2 _ => exact absurd hn (h2 _)
  | tparam hn =>
    cases h' with
    | alias hn' _ => rw [hn] at hn'; cases hn'
    | basic hn' => rw [hn] at hn'; cases hn'
    | tparam hn' => exact ⟨rfl, rfl⟩
    | byName _ _ h3 => exact absurd hn (h3 _)
  | byName h1 h2 h3 =>
    cases h' with
    | alias hn' _ => exact absurd hn' (h1 _)
    | basic hn' => exact absurd hn' (h2 _)
    | tparam hn' => exact absurd hn' (h3 _)
    | byName _ _ _ => exact ⟨rfl, rfl⟩

/-- `r` in `u` is what a reference resolved as `(b, n)` denotes -/
def Denotes (u : U) (b : Bool) (n : Name) (r : Nat) : Prop :=
  (b = false ∧ AL.lookup n u.types = some r) ∨
  (b = true ∧ ∃ ob : Obj, u.objs[r]? = some ob ∧ ob.kind = .typeParam ∧ ob.name = n)

theorem res_name {F : Facts} {v2 : Bool} {u : U} {c r : Nat} (h : Res F v2 u c r) :
    ∃ b n, ResName F v2 c b n ∧ Denotes u b n r := by
  induction h with
  | alias hn _ ih => obtain ⟨b, n, h1, h2⟩ := ih; exact ⟨b, n, .alias hn h1, h2⟩
  | basic hn hl => exact ⟨false, _, .basic hn, .inl ⟨rfl, hl⟩⟩
  | tparam hn ho => exact ⟨true, _, .tparam hn, .inr ⟨rfl, ho⟩⟩
  | byName h1 h2 h3 hl => exact ⟨false, _, .byName h1 h2 h3, .inl ⟨rfl, hl⟩⟩

/-- two child nodes are resolved alike -/
def KidEq (F : Facts) (v2 : Bool) (c1 c2 : Nat) : Prop := ∃ b n, ResName F v2 c1 b n ∧ ResName F v2 c2 b n

def FieldEq (F : Facts) (v2 : Bool) (f g : GField) : Prop :=
  f.name = g.name ∧ f.embedded = g.embedded ∧ f.tag = g.tag ∧ KidEq F v2 f.ty g.ty

def ParamEq (F : Facts) (v2 : Bool) (p q : Str × Nat) : Prop := p.1 = q.1 ∧ KidEq F v2 p.2 q.2

/-- two nodes have the same shape -/
def NodeEq (F : Facts) (v2 : Bool) (g1 g2 : Nat) : Prop :=
  match F.node g1, F.node g2 with
  | .pointer a, .pointer b => KidEq F v2 a b
  | .slice a, .slice b => KidEq F v2 a b
  | .array l a, .array m b => l = m ∧ KidEq F v2 a b
  | .chan a, .chan b => KidEq F v2 a b
  | .map k a, .map k' b => KidEq F v2 k k' ∧ KidEq F v2 a b
  | .struct fs, .struct gs => All2 (FieldEq F v2) fs gs
  | .sig ps rs va rc, .sig ps' rs' va' rc' =>
      All2 (ParamEq F v2) ps ps' ∧ All2 (ParamEq F v2) rs rs' ∧ va = va'
  | .iface ms, .iface ms' => ms.map (fun m => (m.name, nameOf v2 m.str)) = ms'.map (fun m => (m.name, nameOf v2 m.str))
  | .named a _ _ _, .named b _ _ _ => KidEq F v2 a b
  | .basic _, .basic _ => True
  | .other, .other => True
  | .tparam _, .tparam _ => True
  | _, _ => False

/-- nodes filed under one name have one shape -/
def Consistent (F : Facts) (v2 : Bool) : Prop :=
  ∀ n g1 g2, NameFor F v2 n g1 → NameFor F v2 n g2 → NodeEq F v2 g1 g2

/-- `r1` in `u1` and `r2` in `u2` are registered under one name, or are type parameters of one name -/
def Linked (u1 u2 : U) (r1 r2 : Nat) : Prop := ∃ b n, Denotes u1 b n r1 ∧ Denotes u2 b n r2

def OptLinked (u1 u2 : U) (x1 x2 : Option Nat) : Prop := ∃ r1 r2, x1 = some r1 ∧ x2 = some r2 ∧ Linked u1 u2 r1 r2

def MemberEq (u1 u2 : U) (m1 m2 : Str × Bool × Str × Nat) : Prop :=
  m1.1 = m2.1 ∧ m1.2.1 = m2.2.1 ∧ m1.2.2.1 = m2.2.2.1 ∧ Linked u1 u2 m1.2.2.2 m2.2.2.2

def PEq (u1 u2 : U) (p1 p2 : Str × Nat) : Prop := p1.1 = p2.1 ∧ Linked u1 u2 p1.2 p2.2

/-- the two objects say the same: equal kinds, and what that kind carries corresponds.  Receivers are left out: a method's
signature prints like the plain function type, so `Consistent` cannot tell two methods `Len() int` of different receiver
types apart by name (each universe on its own is still described receiver and all, `WalkDesc.described`). -/
structure ObjEq (u1 u2 : U) (ob1 ob2 : Obj) : Prop where
  kind : ob1.kind = ob2.kind
  elem : ob1.kind = .pointer ∨ ob1.kind = .slice ∨ ob1.kind = .array ∨ ob1.kind = .chan ∨ ob1.kind = .map →
    OptLinked u1 u2 ob1.elem ob2.elem
  key : ob1.kind = .map → OptLinked u1 u2 ob1.key ob2.key
  len : ob1.kind = .array → ob1.len = ob2.len
  members : ob1.kind = .struct → All2 (MemberEq u1 u2) ob1.members ob2.members
  sig : ob1.kind = .func → ob1.variadic = ob2.variadic ∧ All2 (PEq u1 u2) ob1.params ob2.params ∧
    All2 (PEq u1 u2) ob1.results ob2.results
  under : ob1.kind = .alias → OptLinked u1 u2 ob1.under ob2.under

theorem res_linked {F : Facts} {v2 : Bool} {u1 u2 : U} {r1 r2 a b : Nat}
    (q1 : Res F v2 u1 a r1) (q2 : Res F v2 u2 b r2) (hk : KidEq F v2 a b) : Linked u1 u2 r1 r2 := by
  obtain ⟨b1, n1, a1, l1⟩ := res_name q1
  obtain ⟨b2, n2, a2, l2⟩ := res_name q2
  obtain ⟨bb, n, k1, k2⟩ := hk
  obtain ⟨e1, e1'⟩ := a1.unique k1
  obtain ⟨e2, e2'⟩ := a2.unique k2
  subst e1 e1' e2 e2'
  exact ⟨_, _, l1, l2⟩

theorem elem_linked {F : Facts} {v2 : Bool} {u1 u2 : U} {x1 x2 : Option Nat} {a b : Nat}
    (h1 : ElemIs F v2 u1 x1 a) (h2 : ElemIs F v2 u2 x2 b) (hk : KidEq F v2 a b) : OptLinked u1 u2 x1 x2 := by
  obtain ⟨r1, e1, q1⟩ := h1
  obtain ⟨r2, e2, q2⟩ := h2
  exact ⟨r1, r2, e1, e2, res_linked q1 q2 hk⟩

/-- composing three pointwise relations -/
theorem All2.zip3 {α β : Type} {R : α → β → Prop} {S : α → β → Prop} {T : β → β → Prop} {Q : α → α → Prop}
    (hq : ∀ x y z w, R x y → S z w → T y w → Q x z) :
    ∀ {a : List α} {b : List β} {c : List α} {d : List β}, All2 R a b → All2 S c d → All2 T b d → All2 Q a c := by
  intro a b c d h1
  induction h1 generalizing c d with
  | nil =>
    intro h2 h3
    cases h3
    cases h2
    exact .nil
  | cons r _ ih =>
    intro h2 h3
    cases h3 with
    | cons t h3' =>
      cases h2 with
      | cons s h2' => exact .cons (hq _ _ _ _ r s t) (ih h2' h3')

/-- **described_alike**: objects described by same-shaped nodes say the same -/
theorem desc_objEq {F : Facts} {v2 : Bool} {u1 u2 : U} {ob1 ob2 : Obj} {g1 g2 : Nat}
    (d1 : Desc F v2 u1 ob1 g1) (d2 : Desc F v2 u2 ob2 g2) (he : NodeEq F v2 g1 g2) : ObjEq u1 u2 ob1 ob2 := by
  unfold Desc at d1 d2
  unfold NodeEq at he
  cases hn1 : F.node g1 <;> cases hn2 : F.node g2 <;> simp only [hn1, hn2] at d1 d2 he <;> try exact he.elim
  case pointer.pointer a b =>
    have hl := elem_linked d1.2 d2.2 he
    exact ⟨d1.1.trans d2.1.symm, fun _ => hl, (fun h => by rw [d1.1] at h; cases h), (fun h => by rw [d1.1] at h; cases h),
      (fun h => by rw [d1.1] at h; cases h), (fun h => by rw [d1.1] at h; cases h), (fun h => by rw [d1.1] at h; cases h)⟩
  case slice.slice a b =>
    have hl := elem_linked d1.2 d2.2 he
    exact ⟨d1.1.trans d2.1.symm, fun _ => hl, (fun h => by rw [d1.1] at h; cases h), (fun h => by rw [d1.1] at h; cases h),
      (fun h => by rw [d1.1] at h; cases h), (fun h => by rw [d1.1] at h; cases h), (fun h => by rw [d1.1] at h; cases h)⟩
  case chan.chan a b =>
    have hl := elem_linked d1.2 d2.2 he
    exact ⟨d1.1.trans d2.1.symm, fun _ => hl, (fun h => by rw [d1.1] at h; cases h), (fun h => by rw [d1.1] at h; cases h),
      (fun h => by rw [d1.1] at h; cases h), (fun h => by rw [d1.1] at h; cases h), (fun h => by rw [d1.1] at h; cases h)⟩
  case array.array l a m b =>
    have hl := elem_linked d1.2.2 d2.2.2 he.2
    exact ⟨d1.1.trans d2.1.symm, fun _ => hl, (fun h => by rw [d1.1] at h; cases h),
      fun _ => d1.2.1.trans (he.1.trans d2.2.1.symm),
      (fun h => by rw [d1.1] at h; cases h), (fun h => by rw [d1.1] at h; cases h), (fun h => by rw [d1.1] at h; cases h)⟩
  case map.map k a k' b =>
    have hl := elem_linked d1.2.1 d2.2.1 he.2
    have hk := elem_linked d1.2.2 d2.2.2 he.1
    exact ⟨d1.1.trans d2.1.symm, fun _ => hl, fun _ => hk, (fun h => by rw [d1.1] at h; cases h),
      (fun h => by rw [d1.1] at h; cases h), (fun h => by rw [d1.1] at h; cases h), (fun h => by rw [d1.1] at h; cases h)⟩
  case struct.struct fs gs =>
    have hm : All2 (MemberEq u1 u2) ob1.members ob2.members :=
      All2.zip3 (fun x y z w r s t => ⟨r.1.trans (t.1.trans s.1.symm), r.2.1.trans (t.2.1.trans s.2.1.symm),
        r.2.2.1.trans (t.2.2.1.trans s.2.2.1.symm), res_linked r.2.2.2 s.2.2.2 t.2.2.2⟩) d1.2 d2.2 he
    exact ⟨d1.1.trans d2.1.symm, (fun h => by rw [d1.1] at h; simp at h), (fun h => by rw [d1.1] at h; cases h),
      (fun h => by rw [d1.1] at h; cases h), fun _ => hm, (fun h => by rw [d1.1] at h; cases h), (fun h => by rw [d1.1] at h; cases h)⟩
  case sig.sig ps rs va rc ps' rs' va' rc' =>
    obtain ⟨k1, _, v1, p1, r1, c1⟩ := d1
    obtain ⟨k2, _, v2', p2, r2, c2⟩ := d2
    obtain ⟨ep, er, ev⟩ := he
    have hp : All2 (PEq u1 u2) ob1.params ob2.params :=
      All2.zip3 (fun x y z w r s t => ⟨r.1.trans (t.1.trans s.1.symm), res_linked r.2 s.2 t.2⟩) p1 p2 ep
    have hr : All2 (PEq u1 u2) ob1.results ob2.results :=
      All2.zip3 (fun x y z w r s t => ⟨r.1.trans (t.1.trans s.1.symm), res_linked r.2 s.2 t.2⟩) r1 r2 er
    exact ⟨k1.trans k2.symm, (fun h => by rw [k1] at h; simp at h), (fun h => by rw [k1] at h; cases h),
      (fun h => by rw [k1] at h; cases h), (fun h => by rw [k1] at h; cases h),
      fun _ => ⟨v1.trans (ev.trans v2'.symm), hp, hr⟩, (fun h => by rw [k1] at h; cases h)⟩
  case iface.iface ms ms' =>
    exact ⟨d1.1.trans d2.1.symm, (fun h => by rw [d1.1] at h; simp at h), (fun h => by rw [d1.1] at h; cases h),
      (fun h => by rw [d1.1] at h; cases h), (fun h => by rw [d1.1] at h; cases h), (fun h => by rw [d1.1] at h; cases h),
      (fun h => by rw [d1.1] at h; cases h)⟩
  case named.named a _ _ _ b _ _ _ =>
    have hl := elem_linked d1.2 d2.2 he
    exact ⟨d1.1.trans d2.1.symm, (fun h => by rw [d1.1] at h; simp at h), (fun h => by rw [d1.1] at h; cases h),
      (fun h => by rw [d1.1] at h; cases h), (fun h => by rw [d1.1] at h; cases h), (fun h => by rw [d1.1] at h; cases h), fun _ => hl⟩
  case basic.basic _ _ =>
    exact ⟨d1.trans d2.symm, (fun h => by rw [d1] at h; simp at h), (fun h => by rw [d1] at h; cases h),
      (fun h => by rw [d1] at h; cases h), (fun h => by rw [d1] at h; cases h), (fun h => by rw [d1] at h; cases h),
      (fun h => by rw [d1] at h; cases h)⟩
  case other.other =>
    exact ⟨d1.trans d2.symm, (fun h => by rw [d1] at h; simp at h), (fun h => by rw [d1] at h; cases h),
      (fun h => by rw [d1] at h; cases h), (fun h => by rw [d1] at h; cases h), (fun h => by rw [d1] at h; cases h),
      (fun h => by rw [d1] at h; cases h)⟩
  case tparam.tparam _ _ =>
    exact ⟨d1.trans d2.symm, (fun h => by rw [d1] at h; simp at h), (fun h => by rw [d1] at h; cases h),
      (fun h => by rw [d1] at h; cases h), (fun h => by rw [d1] at h; cases h), (fun h => by rw [d1] at h; cases h),
      (fun h => by rw [d1] at h; cases h)⟩

/-- **interfaces_alike**: objects described by interface nodes with the same method list (names and printed names) have
corresponding method tables: the same method names, bound to objects registered under one name in either universe -/
theorem desc_iface_methods {F : Facts} {v2 : Bool} {u1 u2 : U} {ob1 ob2 : Obj} {g1 g2 : Nat} {ms1 ms2 : List GMethod}
    (hn1 : F.node g1 = .iface ms1) (hn2 : F.node g2 = .iface ms2) (hne : ms1 ≠ [])
    (d1 : Desc F v2 u1 ob1 g1) (d2 : Desc F v2 u2 ob2 g2) (he : NodeEq F v2 g1 g2) :
    ∀ (k : Str) (r1 : Nat), AL.lookup k ob1.methods = some r1 → ∃ r2, AL.lookup k ob2.methods = some r2 ∧ Linked u1 u2 r1 r2 := by
  unfold Desc at d1 d2
  unfold NodeEq at he
  simp only [hn1, hn2] at d1 d2 he
  have hne2 : ms2 ≠ [] := by
    intro e
    rw [e] at he
    simp only [List.map_nil, List.map_eq_nil_iff] at he
    exact hne he
  obtain ⟨a1, b1⟩ := d1.2 hne
  obtain ⟨a2, _⟩ := d2.2 hne2
  intro k r1 hl
  obtain ⟨m1, hm1, hk1⟩ := b1 k r1 hl
  -- the method of the same position in the other list
  have hmem : (m1.name, nameOf v2 m1.str) ∈ ms2.map (fun m => (m.name, nameOf v2 m.str)) := by
    rw [← he]; exact List.mem_map.mpr ⟨m1, hm1, rfl⟩
  obtain ⟨m2, hm2, e2⟩ := List.mem_map.mp hmem
  simp only [Prod.mk.injEq] at e2
  obtain ⟨x1, l1, reg1⟩ := a1 m1 hm1
  obtain ⟨x2, l2, reg2⟩ := a2 m2 hm2
  rw [hk1] at l1
  rw [hl] at l1
  cases l1
  refine ⟨x2, by rw [← hk1, ← e2.1]; exact l2, false, nameOf v2 m1.str, .inl ⟨rfl, reg1⟩, .inl ⟨rfl, by rw [← e2.2]; exact reg2⟩⟩

/-- the three invariants together -/
def Faithful (bt : List Builtin) (F : Facts) (v2 : Bool) (u : U) : Prop := Full bt F v2 u ∧ SN bt F v2 u

/-- **same_name_same_content**: in two faithful universes over the same facts, the filled objects registered
under one name say the same, and their references are again registered under common names -/
theorem same_name_same_content {bt : List Builtin} {F : Facts} {v2 : Bool} (hc : Consistent F v2) {u1 u2 : U}
    (h1 : Faithful bt F v2 u1) (h2 : Faithful bt F v2 u2) (n : Name) (o1 o2 : Nat) (ob1 ob2 : Obj) (g1 g2 : Nat)
    (l1 : AL.lookup n u1.types = some o1) (l2 : AL.lookup n u2.types = some o2)
    (hob1 : u1.objs[o1]? = some ob1) (hob2 : u2.objs[o2]? = some ob2) (s1 : ob1.src = some g1) (s2 : ob2.src = some g2) :
    ObjEq u1 u2 ob1 ob2 := by
  have n1 := found_under_its_name (⟨h1.1.1, h1.2⟩ : NInv bt F v2 u1) n o1 ob1 g1 l1 hob1 s1
  have n2 := found_under_its_name (⟨h2.1.1, h2.2⟩ : NInv bt F v2 u2) n o2 ob2 g2 l2 hob2 s2
  exact desc_objEq (described h1.1 o1 ob1 g1 hob1 s1) (described h2.1 o2 ob2 g2 hob2 s2) (hc n g1 g2 n1 n2)


/-- **same_name_same_methods**: … and if they are interfaces with methods, their method tables correspond -/
theorem same_name_same_methods {bt : List Builtin} {F : Facts} {v2 : Bool} (hc : Consistent F v2) {u1 u2 : U}
    (h1 : Faithful bt F v2 u1) (h2 : Faithful bt F v2 u2) (n : Name) (o1 o2 : Nat) (ob1 ob2 : Obj) (g1 g2 : Nat)
    (ms1 ms2 : List GMethod) (hn1 : F.node g1 = .iface ms1) (hn2 : F.node g2 = .iface ms2) (hne : ms1 ≠ [])
    (l1 : AL.lookup n u1.types = some o1) (l2 : AL.lookup n u2.types = some o2)
    (hob1 : u1.objs[o1]? = some ob1) (hob2 : u2.objs[o2]? = some ob2) (s1 : ob1.src = some g1) (s2 : ob2.src = some g2) :
    ∀ (k : Str) (r1 : Nat), AL.lookup k ob1.methods = some r1 → ∃ r2, AL.lookup k ob2.methods = some r2 ∧ Linked u1 u2 r1 r2 := by
  have n1 := found_under_its_name (⟨h1.1.1, h1.2⟩ : NInv bt F v2 u1) n o1 ob1 g1 l1 hob1 s1
  have n2 := found_under_its_name (⟨h2.1.1, h2.2⟩ : NInv bt F v2 u2) n o2 ob2 g2 l2 hob2 s2
  exact desc_iface_methods hn1 hn2 hne (described h1.1 o1 ob1 g1 hob1 s1) (described h2.1 o2 ob2 g2 hob2 s2) (hc n g1 g2 n1 n2)

/-! ## both loaders produce faithful universes, in any split and order -/
open Gengo.Loader

theorem faithful_keeps (w : World) (hwf : WellFormed w.facts w.v2) (hbt : BtKinds w.bt) :
    Keeps w (Faithful w.bt w.facts w.v2) where
  same := fun _ _ ho ht hb hd _ _ _ h => ⟨full_of_same ho ht hb hd h.1, same_sn ho ht hb h.2⟩
  add := fun u ob u' _ h hf => ⟨addObj_full w.facts w.v2 hwf w.fuel u ob u' h.1 hf,
    (addObj_ninv w.facts w.v2 hbt w.fuel u ob u' ⟨h.1.1, h.2⟩ hf).2⟩

theorem faithful_empty (bt : List Builtin) (F : Facts) (v2 : Bool) : Faithful bt F v2 {} :=
  ⟨full_empty bt F v2, (ninv_empty bt F v2).2⟩

/-- a sequence of incremental v2 loads -/
def loadsV2 (w : World) (st : LState) (ms : List (List Str)) : Option LState :=
  ms.foldl (fun acc m => acc.bind (fun s => loadToV2 w s m)) (some st)

/-- a sequence of v1 `AddDirTo` calls -/
def addDirsV1 (w : World) (st : LState) (ps : List Str) : Option LState :=
  ps.foldl (fun acc p => acc.bind (fun s => addDirToV1 w s p)) (some st)

theorem loadsV2_faithful (w : World) (hwf : WellFormed w.facts w.v2) (hbt : BtKinds w.bt)
    (req : List Str) (ms : List (List Str)) (a st : LState) (h1 : newUniverseV2 w req = some a) (h2 : loadsV2 w a ms = some st) :
    Faithful w.bt w.facts w.v2 st.u := by
  have k := faithful_keeps w hwf hbt
  have ha := k.newUniverseV2 (faithful_empty _ _ _) req a h1
  exact foldl_bind_inv (fun s m => loadToV2 w s m) (fun s => Faithful w.bt w.facts w.v2 s.u)
    (fun s m s' hs hv => k.loadToV2 s s' m hs hv) ms a st ha h2

theorem addDirsV1_faithful (w : World) (hwf : WellFormed w.facts w.v2) (hbt : BtKinds w.bt)
    (req : List Str) (ps : List Str) (a st : LState) (h1 : findTypesV1 w req = some a) (h2 : addDirsV1 w a ps = some st) :
    Faithful w.bt w.facts w.v2 st.u := by
  have k := faithful_keeps w hwf hbt
  have ha := k.findTypesV1 (faithful_empty _ _ _) req a h1
  exact foldl_bind_inv (fun s p => addDirToV1 w s p) (fun s => Faithful w.bt w.facts w.v2 s.u)
    (fun s p s' hs hv => k.addDirToV1 s s' p hs hv) ps a st ha h2

end Gengo.WalkIso

import Gengo.Basic.Proto
import Gengo.Driver.Tags
import Gengo.Driver.JsonTag
open Gengo Gengo.Proto

def dispatch (f : List Str) : Str :=
  match f with
  | c :: rest =>
    if c = str "tags" then Driver.Tags.handle rest
    else if c = str "json" then Driver.JsonTag.handle rest
    else str "bad-op"
  | _ => str "bad-op"

partial def loop (h : IO.FS.Stream) (out : IO.FS.Stream) : IO Unit := do
  let line ← h.getLine
  if line.isEmpty then return ()
  let l := line.toList
  let l := if l.getLast? = some '\n' then l.dropLast else l
  out.putStrLn (String.ofList (dispatch (fields l)))
  loop h out

def main : IO Unit := do
  loop (← IO.getStdin) (← IO.getStdout)

import Gengo.Basic.Proto
import Gengo.Driver.Tags
import Gengo.Driver.JsonTag
import Gengo.Driver.Tracker
import Gengo.Driver.Namer
import Gengo.Driver.Writer
import Gengo.Driver.Exec
import Gengo.Driver.Order
import Gengo.Driver.ImportBoss
import Gengo.Driver.SetGen
import Gengo.Driver.Assemble
import Gengo.Driver.RawNamer
import Gengo.Driver.Flatten
import Gengo.Driver.Universe
import Gengo.Driver.Comments
import Gengo.Driver.BuildTag
import Gengo.Driver.DeepCopy
open Gengo Gengo.Proto

/-- state of the stateful components (one history at a time per component) -/
structure DState where
  trk : Tracker.T := Tracker.new false []
  sw : Driver.Writer.St := {}
  ex : Driver.Exec.St := {}
  ib : Driver.ImportBoss.St := {}
  set : Driver.SetGen.St := {}
  uni : Driver.Universe.St := {}
  bt : Driver.BuildTag.St := []
  dc : Driver.DeepCopy.St := {}

def dispatch (s : DState) (f : List Str) : DState × Str :=
  match f with
  | c :: rest =>
    if c = str "tags" then (s, Driver.Tags.handle rest)
    else if c = str "json" then (s, Driver.JsonTag.handle rest)
    else if c = str "cm" then (s, Driver.Comments.handle rest)
    else if c = str "flat" then (s, Driver.Flatten.handle rest)
    else if c = str "raw" then (s, Driver.RawNamer.handle rest)
    else if c = str "asm" then (s, Driver.Assemble.handle rest)
    else if c = str "ord" then (s, Driver.Order.handle rest)
    else if c = str "nm" then (s, Driver.Namer.handle rest)
    else if c = str "bt" then
      let (t, o) := Driver.BuildTag.handle s.bt rest
      ({ s with bt := t }, o)
    else if c = str "dc" then
      let (t, o) := Driver.DeepCopy.handle s.dc rest
      ({ s with dc := t }, o)
    else if c = str "trk" then
      let (t, o) := Driver.Tracker.handle s.trk rest
      ({ s with trk := t }, o)
    else if c = str "uni" then
      let (t, o) := Driver.Universe.handle s.uni rest
      ({ s with uni := t }, o)
    else if c = str "set" then
      let (t, o) := Driver.SetGen.handle s.set rest
      ({ s with set := t }, o)
    else if c = str "ib" then
      let (t, o) := Driver.ImportBoss.handle s.ib rest
      ({ s with ib := t }, o)
    else if c = str "ex" then
      let (t, o) := Driver.Exec.handle s.ex rest
      ({ s with ex := t }, o)
    else if c = str "sw" then
      let (t, o) := Driver.Writer.handle s.sw rest
      ({ s with sw := t }, o)
    else (s, str "bad-op")
  | _ => (s, str "bad-op")

partial def loop (h : IO.FS.Stream) (out : IO.FS.Stream) (s : DState) : IO Unit := do
  let line ← h.getLine
  if line.isEmpty then return ()
  let l := line.toList
  let l := if l.getLast? = some '\n' then l.dropLast else l
  let (s', o) := dispatch s (fields l)
  out.putStrLn (String.ofList o)
  loop h out s'

def main : IO Unit := do
  loop (← IO.getStdin) (← IO.getStdout) {}

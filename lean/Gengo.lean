import Gengo.Basic.Str
import Gengo.Basic.Proto
import Gengo.Props.C07
import Gengo.Props.C08
import Gengo.Props.C14
import Gengo.Props.C15
import Gengo.Props.C19

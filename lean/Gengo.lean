import Gengo.Basic.Str
import Gengo.Basic.Proto

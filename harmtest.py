#!/usr/bin/env python3
"""harmtest.py [ids…]  — behaviour-preserving rewrites (harmless/<id>/patch.diff) must NOT raise an alarm.
Applies each patch to /repo, runs the quick check of the property it was written for and of every property anchored in a
touched file, restores /repo.  Supporting evidence, not a registered check.  Results: harmless/results.json"""
import json, os, subprocess, sys, glob
ENV = dict(os.environ, GOFLAGS="-mod=mod", GOPROXY="off", GOSUMDB="off", GOTOOLCHAIN="local")
def sh(cmd, cwd=None, timeout=1800):
    r = subprocess.run(cmd, cwd=cwd, env=ENV, capture_output=True, text=True, timeout=timeout)
    return r.returncode, r.stdout + r.stderr
anch = {}
for l in open("/verif/properties.jsonl"):
    d = json.loads(l)
    for f in d["anchors"]["files"]:
        anch.setdefault(f, []).append(d["id"])
EXTRA = {"v2/generator/simple_target.go": ["C04"], "generator/default_package.go": ["C04"]}
def restore():
    sh(["git", "-C", "/repo", "checkout", "--", "."]); sh(["git", "-C", "/repo", "clean", "-fdq"])
    sh(["go", "run", ".", "-repo", "/repo", "-out", "/verif/lean/Gengo/Generated"], cwd="/verif/go/extract")
def main():
    if sh(["git", "-C", "/repo", "status", "--porcelain"])[1].strip():
        sys.exit("/repo is not clean")
    ids = sys.argv[1:] or sorted(os.path.basename(os.path.dirname(p)) for p in glob.glob("/verif/harmless/*/patch.diff"))
    resf = "/verif/harmless/results.json"
    res = json.load(open(resf)) if os.path.exists(resf) else {}
    for i in ids:
        patch = f"/verif/harmless/{i}/patch.diff"
        files = [l[6:].strip() for l in open(patch) if l.startswith("+++ b/")]
        props = [i.split("-")[0]]
        for f in files:
            for p in anch.get(f, []) + EXTRA.get(f, []):
                if p not in props: props.append(p)
        rc, out = sh(["git", "-C", "/repo", "apply", patch])
        if rc != 0:
            res[i] = {"status": "patch-does-not-apply"}; print(i, "patch does not apply"); continue
        alarms, ran = [], []
        try:
            for p in props:
                rc, out = sh(["/verif/check", p], cwd="/verif")
                viol = [l for l in out.splitlines() if l.startswith("VIOLATION")]
                ran.append(p)
                if viol or rc != 0:
                    alarms.append({"prop": p, "rc": rc, "line": (viol or [out[-300:]])[0]})
        finally:
            restore()
        status = "alarm" if alarms else "quiet"
        if os.path.exists(f"/verif/harmless/{i}/NOT-HARMLESS.txt"):
            # a patch that turned out to break the property after all (see the note in its directory): the alarm is right
            status = "alarm-expected" if alarms else "quiet-but-alarm-expected"
        res[i] = {"status": status, "files": files, "checked": ran, "alarms": alarms}
        print(i, res[i]["status"], ran, [a["line"][:200] for a in alarms], flush=True)
        json.dump(res, open(resf, "w"), indent=1, sort_keys=True)
if __name__ == "__main__":
    main()

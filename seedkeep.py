#!/usr/bin/env python3
"""seedkeep.py <prop> <n> <dest dir rel. to worktree> <module dir> <go test args...>
Confirms a sub-agent's seeded change in its scratch worktree (suites pass, demo fails with / passes without),
runs the registered check against it in /repo, and files it under /verif/seeded/<prop>-<n>/."""
import json, os, shutil, subprocess, sys
prop, n, dest, mod = sys.argv[1:5]
args = sys.argv[5:]
wt = os.environ.get("SEED_WT", prop)
out = f"/tmp/wt/{wt}.out"
patch = f"{out}/patch{n}.diff"
demo = sorted([f for f in os.listdir(out) if f.startswith(f"demo{n}")], key=lambda f: (not f.endswith(".go"), f))[0]
r = subprocess.run(["/verif/seedconfirm.sh", f"/tmp/wt/{wt}", patch, f"{out}/{demo}", dest, mod] + args, capture_output=True, text=True)
confirm = r.stdout.strip().splitlines()
print("\n".join(confirm))
ok = confirm and confirm[-1] == "CONFIRMED"
r = subprocess.run(["/verif/seedtest.sh", prop, patch], capture_output=True, text=True)
lines = [l for l in r.stdout.splitlines() if not l.startswith("KNOWN-FINDING")]
caught = any(l.startswith("VIOLATION") for l in lines)
print("\n".join(lines[-4:]))
d = f"/verif/seeded/{prop}-{int(n) + int(os.environ.get('SEED_OFFSET', '0'))}"
os.makedirs(d, exist_ok=True)
shutil.copy(patch, f"{d}/patch.diff")
shutil.copy(f"{out}/{demo}", f"{d}/{demo}")
if os.path.exists(f"{out}/notes{n}.md"):
    shutil.copy(f"{out}/notes{n}.md", f"{d}/notes.md")
viol = [l for l in lines if l.startswith("VIOLATION")]
meta = {"property": prop, "breaks": open(f"{out}/notes{n}.md").read().split("\n\n")[0][:600] if os.path.exists(f"{out}/notes{n}.md") else "",
        "needs_to_manifest": "see notes.md",
        "confirmed": ok, "confirmation": confirm,
        "demo": {"file": demo, "copy_to": dest, "module_dir": mod, "command": "go test -vet=off -count=1 " + " ".join(args)},
        "check_result": {"caught": caught, "command": f"git -C /repo apply patch.diff && ./check {prop} --tier quick", "output": viol + lines[-1:]}}
json.dump(meta, open(f"{d}/meta.json", "w"), indent=1)
print("KEPT" if ok else "NOT CONFIRMED", "caught" if caught else "MISSED")

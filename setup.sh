#!/bin/bash
# MANIFEST.setup_cmd: build the framework from files on disk only (offline).
set -e
cd "$(dirname "$0")"
export GOFLAGS=-mod=mod GOPROXY=off GOSUMDB=off GOTOOLCHAIN=local CGO_ENABLED=0
(cd lean && lake build 2>&1 | tail -3)
tmp=$(mktemp -d)
trap 'rm -rf "$tmp"' EXIT
cp /repo/go.sum go/h1/go.sum
cp /repo/v2/go.sum go/h2/go.sum
(cd go/h1 && go build -tags verif -o "$tmp/h1" .)
(cd go/h2 && go build -tags verif -o "$tmp/h2" .)
if [ -f go/extract/main.go ]; then (cd go/extract && go build -o "$tmp/extract" .); fi
mkdir -p evidence replays
echo "setup ok"
